package main

import (
	"strconv"
	"bytes"
	"context"
	"fmt"
	"os"
	"os/exec"
	"strings"
	"sync"
	"time"
)

// ------------------------------------------------------------ term helpers

func sAnd(xs ...string) string {
	var ys []string
	for _, x := range xs {
		if x == "true" || x == "" {
			continue
		}
		if x == "false" {
			return "false"
		}
		ys = append(ys, x)
	}
	switch len(ys) {
	case 0:
		return "true"
	case 1:
		return ys[0]
	}
	return "(and " + strings.Join(ys, " ") + ")"
}

func sOr(xs ...string) string {
	var ys []string
	for _, x := range xs {
		if x == "false" || x == "" {
			continue
		}
		if x == "true" {
			return "true"
		}
		ys = append(ys, x)
	}
	switch len(ys) {
	case 0:
		return "false"
	case 1:
		return ys[0]
	}
	return "(or " + strings.Join(ys, " ") + ")"
}

func sNot(x string) string {
	switch x {
	case "true":
		return "false"
	case "false":
		return "true"
	}
	if strings.HasPrefix(x, "(not ") && strings.HasSuffix(x, ")") && balanced(x[5:len(x)-1]) {
		return x[5 : len(x)-1]
	}
	return "(not " + x + ")"
}

func balanced(s string) bool {
	d := 0
	for i, c := range s {
		if c == '(' {
			d++
		} else if c == ')' {
			d--
			if d < 0 {
				return false
			}
			if d == 0 && i != len(s)-1 {
				return false
			}
		} else if d == 0 && c == ' ' {
			return false
		}
	}
	return d == 0
}

func sImp(a, b string) string {
	if a == "true" {
		return b
	}
	if a == "false" || b == "true" {
		return "true"
	}
	return "(=> " + a + " " + b + ")"
}

func sIte(c, a, b string) string {
	if c == "true" {
		return a
	}
	if c == "false" {
		return b
	}
	if a == b {
		return a
	}
	return "(ite " + c + " " + a + " " + b + ")"
}

func sEq(a, b string) string {
	if a == b {
		return "true"
	}
	return "(= " + a + " " + b + ")"
}

func sApp(f string, args ...string) string {
	if len(args) == 0 {
		return f
	}
	return "(" + f + " " + strings.Join(args, " ") + ")"
}

func sInt(n int64) string {
	if n < 0 {
		return fmt.Sprintf("(- %d)", -n)
	}
	return fmt.Sprintf("%d", n)
}

func sym(s string) string {
	// quote if needed
	ok := true
	for _, c := range s {
		if !(c >= 'a' && c <= 'z' || c >= 'A' && c <= 'Z' || c >= '0' && c <= '9' || c == '_' || c == '.' || c == '$' || c == '@' || c == '!' || c == '-') {
			ok = false
			break
		}
	}
	if ok && s != "" && !(s[0] >= '0' && s[0] <= '9') {
		return s
	}
	return "|" + strings.ReplaceAll(s, "|", "!") + "|"
}

// ------------------------------------------------------------ solver runner

type SolverResult struct {
	Status string // unsat sat unknown timeout error
	Solver string
	Time   float64
	Output string
}

type solverDef struct {
	name string
	argv func(file string, timeoutS int) []string
}

const wallFactor = 8

var solvers = []solverDef{
	{"z3-new", func(f string, t int) []string { return []string{"z3-new", fmt.Sprintf("-T:%d", t), f} }},
	{"z3", func(f string, t int) []string { return []string{"z3", fmt.Sprintf("-T:%d", t), f} }},
	{"cvc5", func(f string, t int) []string {
		return []string{"cvc5", fmt.Sprintf("--tlimit=%d", t*1000), "--produce-models", f}
	}},
}

func runSolver(sd solverDef, ctx context.Context, file string, timeoutS int) SolverResult {
	t0 := time.Now()
	// the limit is CPU seconds (ulimit -t), so a busy machine does not turn a 2 s proof into a timeout;
	// the solver's own wall-clock limit is only a backstop at wallFactor times that
	argv := sd.argv(file, timeoutS*wallFactor)
	argv = append([]string{"/bin/sh", "-c", fmt.Sprintf("ulimit -t %d; exec \"$@\"", timeoutS), "sh"}, argv...)
	cmd := exec.CommandContext(ctx, argv[0], argv[1:]...)
	var out bytes.Buffer
	cmd.Stdout = &out
	cmd.Stderr = &out
	err := cmd.Run()
	el := time.Since(t0).Seconds()
	s := out.String()
	first := strings.TrimSpace(strings.SplitN(s, "\n", 2)[0])
	st := "error"
	switch {
	case first == "unsat":
		st = "unsat"
	case first == "sat":
		st = "sat"
	case first == "unknown":
		st = "unknown"
	case first == "timeout" || strings.Contains(s, "timeout") || strings.Contains(s, "interrupted"):
		st = "timeout"
	case ctx.Err() != nil:
		st = "timeout"
	default:
		if ee, ok := err.(*exec.ExitError); ok && !ee.Exited() {
			st = "timeout" // killed by the CPU limit
		}
	}
	return SolverResult{Status: st, Solver: sd.name, Time: el, Output: s}
}

// race all solvers on one script; first unsat wins; sat from any = sat.
func raceSolvers(script string, timeoutS int, tmpdir string, tag string, which []string) SolverResult {
	file := fmt.Sprintf("%s/%s.smt2", tmpdir, tag)
	os.WriteFile(file, []byte(script), 0644)
	// cvc5 variant: it wants set-logic first and rejects some z3-isms; we generate portable text.
	ctx, cancel := context.WithCancel(context.Background())
	defer cancel()
	var use []solverDef
	for _, sd := range solvers {
		if len(which) == 0 {
			use = append(use, sd)
			continue
		}
		for _, w := range which {
			if w == sd.name {
				use = append(use, sd)
			}
		}
	}
	ch := make(chan SolverResult, len(use))
	for _, sd := range use {
		go func(sd solverDef) { ch <- runSolver(sd, ctx, file, timeoutS) }(sd)
	}
	var best SolverResult
	best.Status = "error"
	rank := map[string]int{"error": 0, "timeout": 1, "unknown": 2, "sat": 3, "unsat": 4}
	var outs []string
	for range use {
		r := <-ch
		outs = append(outs, fmt.Sprintf("[%s %s %.2fs] %s", r.Solver, r.Status, r.Time, firstLines(r.Output, 3)))
		if r.Status == "unsat" || r.Status == "sat" {
			cancel()
			r.Output = r.Output
			return r
		}
		if rank[r.Status] > rank[best.Status] || best.Solver == "" {
			best = r
		}
	}
	best.Output = strings.Join(outs, "\n")
	return best
}

func firstLines(s string, n int) string {
	ls := strings.Split(s, "\n")
	if len(ls) > n {
		ls = ls[:n]
	}
	return strings.Join(ls, " / ")
}

// batch incremental run on one solver: returns the status per check-sat, in order.
func runBatch(script string, tmpdir, tag string, perCheckMs int, totalS int) (map[int]string, float64, string) {
	file := fmt.Sprintf("%s/%s.batch.smt2", tmpdir, tag)
	os.WriteFile(file, []byte(script), 0644)
	ctx, cancel := context.WithTimeout(context.Background(), time.Duration(totalS)*time.Second)
	defer cancel()
	t0 := time.Now()
	cmd := exec.CommandContext(ctx, "z3-new", fmt.Sprintf("-t:%d", perCheckMs), file)
	var out bytes.Buffer
	cmd.Stdout = &out
	cmd.Stderr = &out
	cmd.Run()
	el := time.Since(t0).Seconds()
	// every check-sat is preceded by (echo "@ob <index>"): a status line counts only when it directly
	// follows its own tag, so a lost or extra line can never shift a verdict onto another obligation
	res := map[int]string{}
	cur := -1
	for _, l := range strings.Split(out.String(), "\n") {
		l = strings.TrimSpace(l)
		if strings.HasPrefix(l, "@ob ") {
			cur = -1
			if n, err := strconv.Atoi(strings.TrimPrefix(l, "@ob ")); err == nil {
				cur = n
			}
			continue
		}
		switch l {
		case "sat", "unsat", "unknown", "timeout":
			if cur >= 0 {
				res[cur] = l
			}
		}
		cur = -1
	}
	return res, el, out.String()
}

// simple worker pool
func parallel(n int, workers int, f func(i int)) {
	var wg sync.WaitGroup
	ch := make(chan int)
	for w := 0; w < workers; w++ {
		wg.Add(1)
		go func() {
			defer wg.Done()
			for i := range ch {
				f(i)
			}
		}()
	}
	for i := 0; i < n; i++ {
		ch <- i
	}
	close(ch)
	wg.Wait()
}
