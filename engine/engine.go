package main

import (
	"fmt"
	"go/token"
	"go/types"
	"sort"
	"strings"

	"golang.org/x/tools/go/packages"
	"golang.org/x/tools/go/ssa"
)

// ------------------------------------------------------------------ values

type Closure struct {
	Fn       *ssa.Function
	Bindings []Val
}

type addrSrc struct {
	kind   string // field elem cell global
	base   string // struct address (field)
	skey   string // struct type key
	fname  string
	ftype  types.Type
	arr    string // elem: array id
	pos    string // elem: absolute position
	elem   types.Type
	global string
}

type Val struct {
	T     string
	Ty    types.Type
	Clo   *Closure
	Tuple []Val
	Src   *addrSrc
	Boxed *Val
	From  *addrSrc // the field this (map / slice) value was loaded from, for lockset checks on its contents
}

// ------------------------------------------------------------------ script

type Obligation struct {
	Name    string
	Kind    string
	Func    string
	Pos     string
	Reach   string
	Formula string
	At      int
	Cover   bool // expected sat (vacuity guard)
	Canary  bool // expected not-unsat
	Status  string
	Solver  string
	Time    float64
	Output  string
	Src     string
}

type Script struct {
	lines []string
	seen  map[string]bool
	n     int
	obls  []*Obligation
}

func (s *Script) emit(l string)    { s.lines = append(s.lines, l) }
func (s *Script) assert(t string) {
	if t == "true" || t == "" {
		return
	}
	s.emit("(assert " + t + ")")
}
func (s *Script) decl(name, sort string) string {
	q := sym(name)
	if !s.seen[q] {
		s.seen[q] = true
		s.emit("(declare-const " + q + " " + sort + ")")
	}
	return q
}
func (s *Script) declFun(name string, args []string, ret string) string {
	q := sym(name)
	if !s.seen[q] {
		s.seen[q] = true
		s.emit("(declare-fun " + q + " (" + strings.Join(args, " ") + ") " + ret + ")")
	}
	return q
}
func (s *Script) fresh(prefix, sort string) string {
	s.n++
	return s.decl(fmt.Sprintf("%s!%d", prefix, s.n), sort)
}
func (s *Script) define(prefix, sort, term string) string {
	if len(term) < 24 {
		return term
	}
	s.n++
	q := sym(fmt.Sprintf("%s!%d", prefix, s.n))
	s.seen[q] = true
	s.emit("(define-fun " + q + " () " + sort + " " + term + ")")
	return q
}

// ------------------------------------------------------------------ state

type State struct {
	comps map[string]string
	base  string // version tag for components never touched since the last total havoc
}

func (st *State) clone() *State {
	n := &State{comps: make(map[string]string, len(st.comps)), base: st.base}
	for k, v := range st.comps {
		n.comps[k] = v
	}
	return n
}

// ------------------------------------------------------------------ engine

type Engine struct {
	sfUsed    map[*SpecFunc]bool
	curAxiom  *pendingAxiom
	pendingAx []*pendingAxiom
	axSlot    int
	prog     *ssa.Program
	pkgs     []*packages.Package
	spkgs    map[string]*ssa.Package
	fset     *token.FileSet
	specs    *SpecDB
	sc       *Script
	compSort map[string]string
	structs  map[string]*types.Struct
	guards   map[string][]*GuardSpec // key: structKey+"."+field
	mutexOf  map[string][]string

	// per top-level function
	top          *ssa.Function
	topSpec      *FuncSpec
	entry        *State
	alloc0       string
	modTargets   []modTarget
	modAll       bool
	assumptions  map[string]bool
	havocCallees map[string]bool
	extDefault   map[string]bool
	unsupported  []string
	checkOverflow bool
	inlineDepth  int
	errGlobals   map[string]int
	modMemo      map[*ssa.Function]*modInfo
	modBusy      map[*ssa.Function]bool
	fnByName     map[string]*ssa.Function
	newHelpers   map[*ssa.Function]bool // shape.go: functions absent from the baseline, verified inlined
	noAssume     []string               // Options.NoAssume
	usedSpecs    map[string]bool
	typeIDs      map[string]int
	strConsts    map[string]string
	effMemo      map[*ssa.Function]map[string]bool
	localCells   []localCell
	escMemo      map[ssa.Value]bool
	qfacts       []*qfact
	idxTerms     []string
	idxSeen      map[string]bool
}

type modTarget struct {
	comp  string // component name or "" for wildcard
	whole bool
	addr  string // address term (evaluated at entry)
	lo, hi string // for element arrays: permitted positions [lo, hi) ("" = any)
}

const (
	two63 = "9223372036854775808"
	two64 = "18446744073709551616"
	two48 = "281474976710656"
)

func pow2str(k int) string {
	// decimal string of 2^k for k<=64
	v := []int{1}
	for i := 0; i < k; i++ {
		c := 0
		for j := range v {
			x := v[j]*2 + c
			v[j] = x % 10
			c = x / 10
		}
		if c > 0 {
			v = append(v, c)
		}
	}
	var sb strings.Builder
	for i := len(v) - 1; i >= 0; i-- {
		sb.WriteByte(byte('0' + v[i]))
	}
	return sb.String()
}

func prelude() string {
	var sb strings.Builder
	sb.WriteString("(set-option :produce-models true)\n(set-logic ALL)\n")
	sb.WriteString("(declare-datatypes ((Slice 0)) (((mk_slice (s_arr Int) (s_off Int) (s_len Int) (s_cap Int)))))\n")
	sb.WriteString("(declare-fun slen (Int) Int)\n(declare-fun sat (Int Int) Int)\n")
	sb.WriteString("(declare-fun dyntype (Int) Int)\n(declare-fun implErr (Int) Bool)\n")
	sb.WriteString("(declare-fun band (Int Int) Int)\n(declare-fun bor (Int Int) Int)\n(declare-fun bxor (Int Int) Int)\n")
	sb.WriteString("(declare-fun ea (Int Int) Int)\n")
	sb.WriteString("(define-fun tdiv ((a Int) (b Int)) Int (ite (>= a 0) (ite (> b 0) (div a b) (- (div a (- b)))) (ite (> b 0) (- (div (- a) b)) (div (- a) (- b)))))\n")
	sb.WriteString("(define-fun tmod ((a Int) (b Int)) Int (- a (* b (tdiv a b))))\n")
	sb.WriteString("(define-fun imin ((a Int) (b Int)) Int (ite (<= a b) a b))\n")
	sb.WriteString("(define-fun imax ((a Int) (b Int)) Int (ite (>= a b) a b))\n")
	// pow2 on 0..64
	sb.WriteString("(define-fun pow2 ((n Int)) Int ")
	for k := 0; k <= 64; k++ {
		fmt.Fprintf(&sb, "(ite (= n %d) %s ", k, pow2str(k))
	}
	sb.WriteString("0")
	sb.WriteString(strings.Repeat(")", 65))
	sb.WriteString(")\n")
	sb.WriteString("(define-fun nilslice () Slice (mk_slice 0 0 0 0))\n")
	return sb.String()
}

// ------------------------------------------------------------------ types → sorts

func shortPath(p string) string {
	return strings.TrimPrefix(p, "massnet.org/mass/")
}

func (e *Engine) typeKey(t types.Type) string {
	switch u := t.(type) {
	case *types.Named:
		o := u.Obj()
		if o.Pkg() != nil {
			return shortPath(o.Pkg().Path()) + "." + o.Name()
		}
		return o.Name()
	case *types.Alias:
		return e.typeKey(types.Unalias(t))
	case *types.Pointer:
		return "*" + e.typeKey(u.Elem())
	case *types.Slice:
		return "[]" + e.typeKey(u.Elem())
	case *types.Array:
		return fmt.Sprintf("[%d]%s", u.Len(), e.typeKey(u.Elem()))
	case *types.Basic:
		switch u.Kind() {
		case types.Uint8:
			return "uint8"
		case types.Int32:
			return "int32"
		}
		return u.Name()
	case *types.Map:
		return "map[" + e.typeKey(u.Key()) + "]" + e.typeKey(u.Elem())
	case *types.Interface:
		if u.NumMethods() == 0 {
			return "any"
		}
		return "iface{" + types.TypeString(u, func(p *types.Package) string { return shortPath(p.Path()) }) + "}"
	case *types.Struct:
		return "struct{" + types.TypeString(u, func(p *types.Package) string { return shortPath(p.Path()) }) + "}"
	case *types.Chan:
		return "chan " + e.typeKey(u.Elem())
	case *types.Signature:
		return "func"
	case *types.Tuple:
		return "tuple"
	}
	return types.TypeString(t, func(p *types.Package) string { return shortPath(p.Path()) })
}

func isStruct(t types.Type) (*types.Struct, bool) {
	s, ok := t.Underlying().(*types.Struct)
	return s, ok
}

func (e *Engine) structKey(t types.Type) string {
	return e.typeKey(t)
}

func (e *Engine) sortOf(t types.Type) string {
	if g, ok := t.(ghostType); ok {
		return g.sort
	}
	switch u := t.Underlying().(type) {
	case *types.Basic:
		if u.Info()&types.IsBoolean != 0 {
			return "Bool"
		}
		return "Int"
	case *types.Slice:
		return "Slice"
	case *types.Array:
		return "(Array Int " + e.sortOf(u.Elem()) + ")"
	case *types.Struct:
		return e.declStruct(t, u)
	}
	return "Int"
}

func (e *Engine) declStruct(t types.Type, s *types.Struct) string {
	key := e.structKey(t)
	name := sym("S$" + key)
	if _, ok := e.structs[key]; ok {
		return name
	}
	e.structs[key] = s
	var fields []string
	for i := 0; i < s.NumFields(); i++ {
		f := s.Field(i)
		fields = append(fields, "("+sym(key+"."+f.Name())+" "+e.sortOf(f.Type())+")")
	}
	e.sc.emit("(declare-datatypes ((" + name + " 0)) (((" + sym("mk$"+key) + " " + strings.Join(fields, " ") + "))))")
	return name
}

func intRange(t types.Type) (lo, hi string, ok bool) {
	b, isb := t.Underlying().(*types.Basic)
	if !isb || b.Info()&types.IsInteger == 0 {
		return "", "", false
	}
	switch b.Kind() {
	case types.Int8:
		return "(- 128)", "127", true
	case types.Int16:
		return "(- 32768)", "32767", true
	case types.Int32:
		return "(- 2147483648)", "2147483647", true
	case types.Int, types.Int64:
		return "(- " + two63 + ")", "9223372036854775807", true
	case types.Uint8:
		return "0", "255", true
	case types.Uint16:
		return "0", "65535", true
	case types.Uint32:
		return "0", "4294967295", true
	case types.Uint, types.Uint64, types.Uintptr:
		return "0", "18446744073709551615", true
	case types.UntypedInt, types.UntypedRune:
		return "", "", false
	}
	return "", "", false
}

func intBits(t types.Type) (bits int, signed bool, ok bool) {
	b, isb := t.Underlying().(*types.Basic)
	if !isb || b.Info()&types.IsInteger == 0 {
		return 0, false, false
	}
	switch b.Kind() {
	case types.Int8:
		return 8, true, true
	case types.Int16:
		return 16, true, true
	case types.Int32:
		return 32, true, true
	case types.Int, types.Int64:
		return 64, true, true
	case types.Uint8:
		return 8, false, true
	case types.Uint16:
		return 16, false, true
	case types.Uint32:
		return 32, false, true
	case types.Uint, types.Uint64, types.Uintptr:
		return 64, false, true
	}
	return 0, false, false
}

// typing assumption for a term of Go type t ("" if none)
func (e *Engine) rangeOf(term string, t types.Type) string {
	if lo, hi, ok := intRange(t); ok {
		return "(and (<= " + lo + " " + term + ") (<= " + term + " " + hi + "))"
	}
	if types.Identical(t, types.Universe.Lookup("error").Type()) {
		// the dynamic type of a non-nil error value implements error
		return "(or (= " + term + " 0) (implErr (dyntype " + term + ")))"
	}
	switch u := t.Underlying().(type) {
	case *types.Slice:
		return fmt.Sprintf("(and (<= 0 (s_len %[1]s)) (<= (s_len %[1]s) (s_cap %[1]s)) (<= 0 (s_off %[1]s)) (<= (+ (s_off %[1]s) (s_cap %[1]s)) %[2]s) (<= 0 (s_arr %[1]s)) (=> (= (s_arr %[1]s) 0) (= (s_cap %[1]s) 0)))", term, two48)
	case *types.Basic:
		if u.Info()&types.IsString != 0 {
			return "(and (<= 0 (slen " + term + ")) (<= (slen " + term + ") " + two48 + "))"
		}
	}
	return ""
}

func isRefKind(t types.Type) bool {
	switch t.Underlying().(type) {
	case *types.Pointer, *types.Map, *types.Chan, *types.Signature, *types.Interface:
		return true
	}
	return false
}

// ------------------------------------------------------------------ components

func (e *Engine) comp(name, sort string) string {
	if old, ok := e.compSort[name]; ok && old != sort {
		panic(fmt.Sprintf("component %s sort conflict %s vs %s", name, old, sort))
	}
	e.compSort[name] = sort
	return name
}

func (e *Engine) get(st *State, name string) string {
	if t, ok := st.comps[name]; ok {
		return t
	}
	srt, ok := e.compSort[name]
	if !ok {
		panic("unknown component " + name)
	}
	t := e.sc.decl(name+"@"+st.base, srt)
	st.comps[name] = t
	return t
}

func (e *Engine) set(st *State, name, term string) {
	srt := e.compSort[name]
	st.comps[name] = e.sc.define(name, srt, term)
}

func (e *Engine) havocComp(st *State, name string) {
	srt := e.compSort[name]
	st.comps[name] = e.sc.fresh(name, srt)
}

func (e *Engine) fieldComp(skey string, f *types.Var) (string, bool) {
	if _, ok := isStruct(f.Type()); ok {
		return "", false
	}
	if _, ok := f.Type().Underlying().(*types.Array); ok {
		return "", false
	}
	return e.comp("F$"+skey+"$"+f.Name(), "(Array Int "+e.sortOf(f.Type())+")"), true
}

func (e *Engine) elemKey(t types.Type) string {
	if b, ok := t.Underlying().(*types.Basic); ok {
		switch b.Kind() {
		case types.Uint8:
			return "uint8"
		}
		if b.Info()&types.IsInteger != 0 || b.Info()&types.IsBoolean != 0 || b.Info()&types.IsString != 0 {
			return b.Name()
		}
	}
	return e.typeKey(t)
}

func (e *Engine) elemComp(t types.Type) string {
	return e.comp("E$"+e.elemKey(t), "(Array Int (Array Int "+e.sortOf(t)+"))")
}

func (e *Engine) cellComp(t types.Type) string {
	return e.comp("C$"+e.elemKey(t), "(Array Int "+e.sortOf(t)+")")
}

func (e *Engine) mapComps(m *types.Map) (dom, val string) {
	k := e.typeKey(m)
	dom = e.comp("Mdom$"+k, "(Array Int (Array "+e.sortOf(m.Key())+" Bool))")
	val = e.comp("Mval$"+k, "(Array Int (Array "+e.sortOf(m.Key())+" "+e.sortOf(m.Elem())+"))")
	return
}

func (e *Engine) faFun(skey, fname string) string {
	name := "fa$" + skey + "$" + fname
	q := sym(name)
	if !e.sc.seen[q] {
		e.sc.declFun(name, []string{"Int"}, "Int")
		e.sc.declFun("fainv$"+skey+"$"+fname, []string{"Int"}, "Int")
	}
	return q
}

// address of field fname of the struct at base; derived addresses are negative, injective per field
func (e *Engine) fa(skey, fname, base string) string {
	f := e.faFun(skey, fname)
	term := "(" + f + " " + base + ")"
	key := "inst:" + term
	if strings.Contains(base, "q$") || strings.Contains(base, "p$") && strings.Contains(base, "|p$") {
		// the base mentions a bound (quantifier / spec-function parameter) variable: no ground instance facts
		return term
	}
	if !e.sc.seen[key] {
		e.sc.seen[key] = true
		inv := sym("fainv$" + skey + "$" + fname)
		rootof := e.sc.declFun("rootof", []string{"Int"}, "Int")
		e.sc.assert(fmt.Sprintf("(= (%s %s) (ite (< %s 0) (%s %s) %s))", rootof, term, base, rootof, base, base))
		tag := e.sc.declFun("fatag", []string{"Int"}, "Int")
		e.sc.assert(fmt.Sprintf("(and (= (%s %s) %s) (< %s 0) (= (%s %s) %d))", inv, term, base, term, tag, term, e.typeID(types.NewVar(0, nil, "fa$"+skey+"$"+fname, types.Typ[types.Int]).Type())*0+e.faID(skey+"$"+fname)))
	}
	return term
}

func (e *Engine) assume(what string) { e.assumptions[what] = true }

// zero value of a type as a term
func (e *Engine) zero(t types.Type) string {
	switch u := t.Underlying().(type) {
	case *types.Basic:
		if u.Info()&types.IsBoolean != 0 {
			return "false"
		}
		if u.Info()&types.IsString != 0 {
			return e.strConst("")
		}
		return "0"
	case *types.Slice:
		return "nilslice"
	case *types.Array:
		return "((as const " + e.sortOf(t) + ") " + e.zero(u.Elem()) + ")"
	case *types.Struct:
		srt := e.declStruct(t, u)
		_ = srt
		if u.NumFields() == 0 {
			return sym("mk$" + e.structKey(t))
		}
		var fs []string
		for i := 0; i < u.NumFields(); i++ {
			fs = append(fs, e.zero(u.Field(i).Type()))
		}
		return "(" + sym("mk$"+e.structKey(t)) + " " + strings.Join(fs, " ") + ")"
	}
	return "0"
}

func (e *Engine) strConst(s string) string {
	if t, ok := e.strConsts[s]; ok {
		return t
	}
	name := fmt.Sprintf("str!%d", len(e.strConsts))
	q := e.sc.decl(name, "Int")
	e.strConsts[s] = q
	e.sc.assert(fmt.Sprintf("(= (slen %s) %d)", q, len(s)))
	if len(s) <= 64 {
		for i := 0; i < len(s); i++ {
			e.sc.assert(fmt.Sprintf("(= (sat %s %d) %d)", q, i, s[i]))
		}
	}
	// distinct from the other constants
	for o, t := range e.strConsts {
		if o != s {
			e.sc.assert("(not (= " + q + " " + t + "))")
		}
	}
	return q
}

// string equality: identity of ids; for comparison with a constant add the extensionality instance
func (e *Engine) strEq(a, b string) string {
	for s, t := range e.strConsts {
		other := ""
		if t == a {
			other = b
		} else if t == b {
			other = a
		}
		if other != "" && len(s) <= 64 {
			conj := []string{fmt.Sprintf("(= (slen %s) %d)", other, len(s))}
			for i := 0; i < len(s); i++ {
				conj = append(conj, fmt.Sprintf("(= (sat %s %d) %d)", other, i, s[i]))
			}
			e.sc.assert("(= (= " + other + " " + t + ") " + sAnd(conj...) + ")")
		}
	}
	return "(= " + a + " " + b + ")"
}

func (e *Engine) typeID(t types.Type) int {
	k := e.typeKey(t)
	if id, ok := e.typeIDs[k]; ok {
		return id
	}
	id := len(e.typeIDs) + 1
	e.typeIDs[k] = id
	return id
}

// ------------------------------------------------------------------ heap access

// load a value of type t stored at address addr (struct / array pointee) or described by src (scalar)
func (e *Engine) loadAt(st *State, addr string, src *addrSrc, t types.Type) string {
	switch u := t.Underlying().(type) {
	case *types.Struct:
		key := e.structKey(t)
		e.declStruct(t, u)
		if u.NumFields() == 0 {
			return sym("mk$" + key)
		}
		var fs []string
		for i := 0; i < u.NumFields(); i++ {
			f := u.Field(i)
			fs = append(fs, e.loadField(st, addr, key, f))
		}
		return "(" + sym("mk$"+key) + " " + strings.Join(fs, " ") + ")"
	case *types.Array:
		if _, ok := isStruct(u.Elem()); ok {
			// arrays of structs by value are not tracked element-wise: the loaded value is arbitrary (sound)
			e.assume("values of arrays of structs are not tracked (loads yield arbitrary values)")
			return e.sc.fresh("arrval", e.sortOf(t))
		}
		return "(select " + e.get(st, e.elemComp(u.Elem())) + " " + addr + ")"
	}
	if src != nil {
		switch src.kind {
		case "field":
			c, _ := e.fieldComp(src.skey, types.NewVar(0, nil, src.fname, src.ftype))
			return "(select " + e.get(st, c) + " " + src.base + ")"
		case "elem":
			return "(select (select " + e.get(st, e.elemComp(src.elem)) + " " + src.arr + ") " + src.pos + ")"
		case "global":
			c := e.comp("G$"+src.global, e.sortOf(t))
			return e.get(st, c)
		}
	}
	return "(select " + e.get(st, e.cellComp(t)) + " " + addr + ")"
}

func (e *Engine) loadField(st *State, base, skey string, f *types.Var) string {
	if c, ok := e.fieldComp(skey, f); ok {
		return "(select " + e.get(st, c) + " " + base + ")"
	}
	fa := e.fa(skey, f.Name(), base)
	return e.loadAt(st, fa, nil, f.Type())
}

func (e *Engine) storeAt(st *State, addr string, src *addrSrc, t types.Type, v string) {
	switch u := t.Underlying().(type) {
	case *types.Struct:
		key := e.structKey(t)
		e.declStruct(t, u)
		for i := 0; i < u.NumFields(); i++ {
			f := u.Field(i)
			fv := "(" + sym(key+"."+f.Name()) + " " + v + ")"
			if c, ok := e.fieldComp(key, f); ok {
				e.set(st, c, "(store "+e.get(st, c)+" "+addr+" "+fv+")")
			} else {
				fa := e.fa(key, f.Name(), addr)
				e.storeAt(st, fa, nil, f.Type(), fv)
			}
		}
		return
	case *types.Array:
		if _, ok := isStruct(u.Elem()); ok {
			// not tracked element-wise: every field component of the element type becomes arbitrary (sound)
			e.assume("values of arrays of structs are not tracked (stores havoc the element type's fields)")
			comps := map[string]bool{}
			e.deepComps(u.Elem(), comps)
			for _, c := range sortedKeys(comps) {
				e.havocComp(st, c)
			}
			return
		}
		c := e.elemComp(u.Elem())
		e.set(st, c, "(store "+e.get(st, c)+" "+addr+" "+v+")")
		return
	}
	if src != nil {
		switch src.kind {
		case "field":
			c, _ := e.fieldComp(src.skey, types.NewVar(0, nil, src.fname, src.ftype))
			e.set(st, c, "(store "+e.get(st, c)+" "+src.base+" "+v+")")
			return
		case "elem":
			c := e.elemComp(src.elem)
			cur := e.get(st, c)
			e.set(st, c, "(store "+cur+" "+src.arr+" (store (select "+cur+" "+src.arr+") "+src.pos+" "+v+"))")
			return
		case "global":
			c := e.comp("G$"+src.global, e.sortOf(t))
			e.set(st, c, v)
			return
		}
	}
	c := e.cellComp(t)
	e.set(st, c, "(store "+e.get(st, c)+" "+addr+" "+v+")")
}

// components written by a store of type t at (addr, src) — names only
func (e *Engine) compsOfStore(src *addrSrc, t types.Type, out map[string]bool) {
	switch u := t.Underlying().(type) {
	case *types.Struct:
		key := e.structKey(t)
		for i := 0; i < u.NumFields(); i++ {
			f := u.Field(i)
			if c, ok := e.fieldComp(key, f); ok {
				out[c] = true
			} else {
				e.compsOfStore(nil, f.Type(), out)
			}
		}
		return
	case *types.Array:
		if _, ok := isStruct(u.Elem()); ok {
			return
		}
		out[e.elemComp(u.Elem())] = true
		return
	}
	if src != nil {
		switch src.kind {
		case "field":
			c, _ := e.fieldComp(src.skey, types.NewVar(0, nil, src.fname, src.ftype))
			out[c] = true
			return
		case "elem":
			out[e.elemComp(src.elem)] = true
			return
		case "global":
			out[e.comp("G$"+src.global, e.sortOf(t))] = true
			return
		}
	}
	out[e.cellComp(t)] = true
}

func sortedKeys(m map[string]bool) []string {
	var ks []string
	for k := range m {
		ks = append(ks, k)
	}
	sort.Strings(ks)
	return ks
}

func (e *Engine) faID(k string) int {
	if id, ok := e.typeIDs["fa$"+k]; ok {
		return id
	}
	id := len(e.typeIDs) + 1
	e.typeIDs["fa$"+k] = id
	return id
}
