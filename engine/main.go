package main

import (
	"encoding/json"
	"flag"
	"fmt"
	"go/types"
	"os"
	"path/filepath"
	"sort"
	"strings"
	"sync"
	"time"

	"golang.org/x/tools/go/packages"
	"golang.org/x/tools/go/ssa"
	"golang.org/x/tools/go/ssa/ssautil"
)

type Shared struct {
	prog  *ssa.Program
	pkgs  []*packages.Package
	spkgs map[string]*ssa.Package
	specs *SpecDB
	funcs map[string]*ssa.Function
	mu    sync.Mutex
	// one note per function whose contract identifiers were transported along a pure renaming of locals (shape.go)
	renameNotes []string
	newHelpers  map[*ssa.Function]bool
}

func loadShared(repo string, pkgPaths []string, extDir string) (*Shared, error) {
	cfg := &packages.Config{Mode: packages.LoadSyntax, Dir: repo, BuildFlags: []string{"-tags=verif"},
		Env: append(os.Environ(), "GOFLAGS=-mod=mod", "GOPROXY=off", "GOSUMDB=off", "GOTOOLCHAIN=local")}
	pkgs, err := packages.Load(cfg, pkgPaths...)
	if err != nil {
		return nil, err
	}
	for _, p := range pkgs {
		for _, e := range p.Errors {
			return nil, fmt.Errorf("package %s: %v", p.PkgPath, e)
		}
	}
	prog, spkgs := ssautil.Packages(pkgs, ssa.GlobalDebug|ssa.BareInits)
	prog.Build()
	sh := &Shared{prog: prog, pkgs: pkgs, spkgs: map[string]*ssa.Package{}, specs: NewSpecDB(), funcs: map[string]*ssa.Function{}}
	for i, sp := range spkgs {
		if sp == nil {
			return nil, fmt.Errorf("no SSA for %s", pkgs[i].PkgPath)
		}
		sh.spkgs[pkgs[i].PkgPath] = sp
	}
	// contracts: ext dir, then zz_contracts_verif.go of each loaded package
	if extDir != "" {
		if err := sh.specs.LoadExtDir(extDir); err != nil {
			return nil, err
		}
	}
	for _, p := range pkgs {
		dirs := map[string]bool{}
		for _, f := range p.GoFiles {
			dirs[filepath.Dir(f)] = true
		}
		for d := range dirs {
			files, _ := filepath.Glob(filepath.Join(d, "zz_contracts*_verif.go"))
			sort.Strings(files)
			for _, f := range files {
				if err := sh.specs.LoadFile(f, p.PkgPath, false); err != nil {
					return nil, err
				}
			}
		}
	}
	for fn := range ssautil.AllFunctions(prog) {
		if fn.Pkg != nil || fn.Parent() != nil {
			sh.funcs[fn.String()] = fn
		}
	}
	sh.renameNotes = sh.applyRenames()
	sh.findNewHelpers()
	return sh, nil
}

func (sh *Shared) newEngine() *Engine {
	e := &Engine{sfUsed: map[*SpecFunc]bool{}, prog: sh.prog, pkgs: sh.pkgs, spkgs: sh.spkgs, fset: sh.prog.Fset, specs: sh.specs,
		sc: &Script{seen: map[string]bool{}}, compSort: map[string]string{}, structs: map[string]*types.Struct{},
		guards: map[string][]*GuardSpec{}, assumptions: map[string]bool{}, havocCallees: map[string]bool{},
		extDefault: map[string]bool{}, errGlobals: map[string]int{}, modMemo: map[*ssa.Function]*modInfo{},
		typeIDs: map[string]int{}, strConsts: map[string]string{}, fnByName: sh.funcs, newHelpers: sh.newHelpers}
	for _, g := range sh.specs.Guards {
		for _, f := range g.Fields {
			k := shortPath(g.Type) + "." + f
			e.guards[k] = append(e.guards[k], g)
		}
	}
	e.comp("alloc", "Int")
	// ghost components exist from the start so that every state carries them
	for n, g := range sh.specs.Ghosts {
		e.comp("ghost$"+n, g.Sort)
	}
	return e
}

type FuncResult struct {
	Func        string
	Obligations []*Obligation
	Assumptions []string
	Havoc       []string
	ExtDefault  []string
	Unsupported []string
	Trusted     bool
	GenTime     float64
	SolveTime   float64
	Lines       int
	Err         string
}

type Options struct {
	Overflow bool
	Guards   bool
	Timeout  int
	TmpDir   string
	Solvers  []string
	NoBatch  bool
	KeepSMT  bool
	Kinds    map[string]bool // if non-nil, only these obligation kinds are generated as obligations... (filter at report)
	Groups   []string
	Want     func(ob *Obligation) bool // if non-nil, obligations it rejects are not solved (they stay assumptions)
	// obligations whose name contains one of these are checked but NOT assumed afterwards: an obligation that is
	// outside the claim (skip list) or known to fail by contradiction with the path condition (a lock that is held)
	// must not make everything behind it vacuously true
	NoAssume []string
}

func (sh *Shared) verifyFunc(fn *ssa.Function, opt Options) (res *FuncResult) {
	res = &FuncResult{Func: fn.String()}
	t0 := time.Now()
	e := sh.newEngine()
	e.noAssume = opt.NoAssume
	defer func() {
		if r := recover(); r != nil {
			res.Err = fmt.Sprintf("engine panic: %v", r)
			if os.Getenv("GOVC_DEBUG") != "" {
				panic(r)
			}
		}
	}()
	e.checkOverflow = opt.Overflow
	{
		// keep only the guard groups this run asks for ("lock" when Guards is set)
		want := map[string]bool{}
		if opt.Guards {
			want["lock"] = true
		}
		for _, g := range opt.Groups {
			want[g] = true
		}
		filtered := map[string][]*GuardSpec{}
		for k, gs := range e.guards {
			for _, g := range gs {
				grp := g.Group
				if grp == "" {
					grp = "lock"
				}
				if want[grp] {
					filtered[k] = append(filtered[k], g)
				}
			}
		}
		e.guards = filtered
	}
	e.top = fn
	sh.mu.Lock()
	sp := sh.specs.Funcs[fn.String()]
	sh.mu.Unlock()
	e.topSpec = sp
	if sp != nil && sp.Attrs["nooverflow-check"] {
		e.checkOverflow = false
	}
	if !e.checkOverflow {
		e.assume("machine integer + - * treated as mathematical: overflow obligations are not generated for this property")
	}
	e.emitAxioms()
	st := &State{comps: map[string]string{}, base: "0"}
	e.alloc0 = e.get(st, "alloc")
	e.sc.assert("(>= " + e.alloc0 + " 0)")
	fr := e.newFrame(fn, shortPath(fn.String()))
	fr.cur = &Cur{"true", st}
	fr.block = nil
	for _, p := range fn.Params {
		v := fr.freshVal("p$"+p.Name(), p.Type())
		fr.params = append(fr.params, v)
		fr.vals[p] = v
		fr.boundRef(v)
	}
	for _, f := range fn.FreeVars {
		v := fr.freshVal("fv$"+f.Name(), f.Type())
		fr.free = append(fr.free, v)
		fr.vals[f] = v
		fr.boundRef(v)
		if _, isPtr := f.Type().Underlying().(*types.Pointer); isPtr {
			e.sc.assert("(not (= " + v.T + " 0))") // captured variables are cells
		}
	}
	entryEnv := func() *Env {
		env := &Env{e: e, st: st, old: st, names: map[string]Val{}}
		if fn.Pkg != nil {
			env.pkg = fn.Pkg.Pkg
		} else if fn.Parent() != nil {
			p := fn
			for p.Parent() != nil {
				p = p.Parent()
			}
			if p.Pkg != nil {
				env.pkg = p.Pkg.Pkg
			}
		}
		for i, p := range fn.Params {
			env.names[p.Name()] = fr.params[i]
		}
		if fn.Signature.Recv() != nil && len(fr.params) > 0 {
			env.names["this"] = fr.params[0]
		}
		for i, f := range fn.FreeVars {
			v := fr.free[i]
			pt := v.Ty.Underlying().(*types.Pointer).Elem()
			env.names[f.Name()] = Val{T: e.loadAt(st, v.T, v.Src, pt), Ty: pt}
		}
		return env
	}
	// pointer receivers are non-nil on entry: every static call site carries a nil(recv) obligation
	if recv := fn.Signature.Recv(); recv != nil && len(fr.params) > 0 {
		if _, isPtr := recv.Type().Underlying().(*types.Pointer); isPtr && (sp == nil || !sp.Attrs["nilrecv-ok"]) {
			e.sc.assert("(not (= " + fr.params[0].T + " 0))")
		}
	}
	if sp != nil {
		res.Trusted = sp.Trusted
		env := entryEnv()
		for _, c := range sp.Requires {
			t, err := env.Bool(c.Expr)
			if err != nil {
				res.Err = fmt.Sprintf("requires %s:%d: %v", c.File, c.Line, err)
				return
			}
			e.sc.emit("; requires " + c.Src)
			e.sc.assert(t)
			e.noteFacts(env, c.Expr, "true")
		}
		// modifies targets
		for _, m := range sp.Modifies {
			if m == "*" || m == "heap" {
				e.modAll = true
				continue
			}
			if err := e.addModTarget(m, sp, fn.Signature, env); err != nil {
				res.Err = fmt.Sprintf("modifies %q: %v", m, err)
				return
			}
		}
	}
	// cover: preconditions are satisfiable
	fr.cover("requires", "true")
	outReach, outSt, results := fr.exec("true", st)
	fr.block = nil
	fr.cur = &Cur{outReach, outSt}
	if sp != nil {
		env := entryEnv()
		env.st = outSt
		env.old = fr.entry
		env.lastResult = func(name string) (Val, bool) {
			v, ok := fr.lastRes[name]
			return v, ok
		}
		fr.bindResults(env, results)
		for _, c := range sp.Ensures {
			t, err := env.Goal(c.Expr)
			if err != nil {
				res.Err = fmt.Sprintf("ensures %s:%d: %v", c.File, c.Line, err)
				return
			}
			fr.obligeAt(outReach, "post", labelOr(c), t, c.Src)
		}
	}
	// ghost frame: a ghost component not listed in modifies must be restored at exit
	if sp != nil && sp.HasMod && !e.modAll {
		var compNames []string
		for c := range e.compSort {
			compNames = append(compNames, c)
		}
		sort.Strings(compNames)
		for _, c := range compNames {
			if !strings.HasPrefix(c, "ghost$") || strings.HasPrefix(c, "ghost$iter$") {
				continue
			}
			listed := false
			for _, m := range e.modTargets {
				if m.comp == c {
					listed = true
				}
			}
			fin, ok := outSt.comps[c]
			if listed || !ok {
				continue
			}
			ini := e.get(fr.entry, c)
			if fin != ini {
				fr.obligeAt(outReach, "ghostframe", strings.TrimPrefix(c, "ghost$"), "(= "+fin+" "+ini+")", "")
			}
		}
	}
	// lock balance: with lockset checking on, every function restores the lock state unless it declares otherwise
	if opt.Guards && !(sp != nil && sp.HasMod) {
		var compNames []string
		for c := range e.compSort {
			compNames = append(compNames, c)
		}
		sort.Strings(compNames)
		for _, c := range compNames {
			if !e.isLockGhost(c) {
				continue
			}
			fin, ok := outSt.comps[c]
			if !ok {
				continue
			}
			ini := e.get(fr.entry, c)
			if fin != ini {
				fr.obligeAt(outReach, "lockbalance", strings.TrimPrefix(c, "ghost$"), "(= "+fin+" "+ini+")", "")
			}
		}
	}
	// vacuity guards
	fr.cover("exit", "true")
	ob := &Obligation{Name: fr.prefix + "#canary", Kind: "canary", Func: fr.prefix, Reach: outReach, Formula: "false", At: len(e.sc.lines), Canary: true}
	e.sc.obls = append(e.sc.obls, ob)

	e.finalizeAxioms()
	res.GenTime = time.Since(t0).Seconds()
	res.Obligations = e.sc.obls
	res.Assumptions = sortedKeys(e.assumptions)
	res.Havoc = sortedKeys(e.havocCallees)
	res.ExtDefault = sortedKeys(e.extDefault)
	res.Unsupported = e.unsupported
	res.Lines = len(e.sc.lines)
	t1 := time.Now()
	solveAll(e.sc, sanitizeFile(fn.String()), opt)
	res.SolveTime = time.Since(t1).Seconds()
	return
}

func sanitizeFile(s string) string {
	r := strings.NewReplacer("/", "_", "(", "", ")", "", "*", "", "$", "_", " ", "_", "|", "_")
	s = r.Replace(s)
	if len(s) > 120 {
		s = s[len(s)-120:]
	}
	return s
}

func (e *Engine) addModTarget(m string, sp *FuncSpec, sig *types.Signature, env *Env) error {
	m = strings.TrimSpace(m)
	gname := strings.SplitN(m, "[", 2)[0]
	if g, ok := e.specs.Ghosts[gname]; ok {
		c := e.comp("ghost$"+g.Name, g.Sort)
		if strings.Contains(m, "[") && strings.HasSuffix(m, "]") {
			ex, err := ParseExpr(m[len(gname)+1 : len(m)-1])
			if err != nil {
				return err
			}
			v, err := env.Val(ex)
			if err != nil {
				return err
			}
			e.modTargets = append(e.modTargets, modTarget{comp: c, addr: v.T})
			return nil
		}
		e.modTargets = append(e.modTargets, modTarget{comp: c, whole: true})
		return nil
	}
	if strings.HasSuffix(m, "[*]") || strings.HasSuffix(m, "[:]") {
		ex, err := ParseExpr(strings.TrimSuffix(strings.TrimSuffix(m, "[*]"), "[:]"))
		if err != nil {
			return err
		}
		v, err := env.Val(ex)
		if err != nil {
			return err
		}
		switch u := v.Ty.Underlying().(type) {
		case *types.Slice:
			ext := "(s_cap " + v.T + ")"
			if strings.HasSuffix(m, "[:]") {
				ext = "(s_len " + v.T + ")"
			}
			e.modTargets = append(e.modTargets, modTarget{comp: e.elemComp(u.Elem()), addr: "(s_arr " + v.T + ")", lo: "(s_off " + v.T + ")", hi: "(+ (s_off " + v.T + ") " + ext + ")"})
		case *types.Map:
			d, vv := e.mapComps(u)
			e.modTargets = append(e.modTargets, modTarget{comp: d, addr: v.T}, modTarget{comp: vv, addr: v.T})
		case *types.Pointer:
			arr, ok := u.Elem().Underlying().(*types.Array)
			if !ok {
				return fmt.Errorf("[*] on pointer to non-array")
			}
			e.modTargets = append(e.modTargets, modTarget{comp: e.elemComp(arr.Elem()), addr: v.T})
		default:
			return fmt.Errorf("[*] on %s", v.Ty)
		}
		return nil
	}
	if strings.HasPrefix(m, "deep(") && strings.HasSuffix(m, ")") || strings.HasPrefix(m, "*") {
		inner := strings.TrimPrefix(m, "*")
		if strings.HasPrefix(m, "deep(") {
			inner = m[5 : len(m)-1]
		}
		ex, err := ParseExpr(inner)
		if err != nil {
			return err
		}
		v, err := env.Val(ex)
		if err != nil {
			return err
		}
		p, ok := v.Ty.Underlying().(*types.Pointer)
		if !ok {
			return fmt.Errorf("deep/* on non-pointer")
		}
		e.addDeepTargets(v.T, p.Elem())
		return nil
	}
	if i := strings.LastIndex(m, "."); i > 0 {
		base, fname := m[:i], m[i+1:]
		if ex, err := ParseExpr(base); err == nil {
			if v, err2 := env.Val(ex); err2 == nil {
				if p, ok := v.Ty.Underlying().(*types.Pointer); ok {
					s, ok := isStruct(p.Elem())
					if !ok {
						return fmt.Errorf("%s is not a struct pointer", base)
					}
					f, path := findField(s, fname)
					if f == nil || len(path) != 1 {
						return fmt.Errorf("no direct field %s", fname)
					}
					key := e.structKey(p.Elem())
					if c, ok := e.fieldComp(key, f); ok {
						e.modTargets = append(e.modTargets, modTarget{comp: c, addr: v.T})
					} else {
						e.addDeepTargets(e.fa(key, f.Name(), v.T), f.Type())
					}
					return nil
				}
			}
		}
	}
	cs, err := e.modTargetComps(m, sp, sig)
	if err != nil {
		return err
	}
	for _, c := range cs {
		e.modTargets = append(e.modTargets, modTarget{comp: c, whole: true})
	}
	return nil
}

func (e *Engine) addDeepTargets(addr string, t types.Type) {
	switch u := t.Underlying().(type) {
	case *types.Struct:
		key := e.structKey(t)
		for i := 0; i < u.NumFields(); i++ {
			f := u.Field(i)
			if c, ok := e.fieldComp(key, f); ok {
				e.modTargets = append(e.modTargets, modTarget{comp: c, addr: addr})
			} else {
				e.addDeepTargets(e.fa(key, f.Name(), addr), f.Type())
			}
		}
	case *types.Array:
		if _, ok := isStruct(u.Elem()); !ok {
			e.modTargets = append(e.modTargets, modTarget{comp: e.elemComp(u.Elem()), addr: addr})
		}
	default:
		e.modTargets = append(e.modTargets, modTarget{comp: e.cellComp(t), addr: addr})
	}
}

// ------------------------------------------------------------------ solving

func obligationScript(sc *Script, ob *Obligation, withModel bool) string {
	var sb strings.Builder
	sb.WriteString(prelude())
	for _, l := range sc.lines[:ob.At] {
		sb.WriteString(l)
		sb.WriteByte('\n')
	}
	sb.WriteString("(assert " + ob.Reach + ")\n")
	sb.WriteString("(assert (not " + ob.Formula + "))\n")
	sb.WriteString("(check-sat)\n")
	if withModel {
		sb.WriteString("(get-model)\n")
	}
	return sb.String()
}

func solveAll(sc *Script, tag string, opt Options) {
	if len(sc.obls) == 0 {
		return
	}
	os.MkdirAll(opt.TmpDir, 0755)
	pending := map[int]bool{}
	for i := range sc.obls {
		if opt.Want != nil && !sc.obls[i].Cover && !sc.obls[i].Canary && !opt.Want(sc.obls[i]) {
			sc.obls[i].Status = "skipped"
			continue
		}
		pending[i] = true
	}
	if !opt.NoBatch {
		// one incremental z3 run over everything, short per-check limit
		var sb strings.Builder
		sb.WriteString(prelude())
		li := 0
		order := make([]int, len(sc.obls))
		for i := range order {
			order[i] = i
		}
		sort.SliceStable(order, func(a, b int) bool { return sc.obls[order[a]].At < sc.obls[order[b]].At })
		var kept []int
		for _, oi := range order {
			if pending[oi] {
				kept = append(kept, oi)
			}
		}
		order = kept
		for _, oi := range order {
			ob := sc.obls[oi]
			for ; li < ob.At; li++ {
				sb.WriteString(sc.lines[li])
				sb.WriteByte('\n')
			}
			sb.WriteString(fmt.Sprintf("(push 1)\n(assert %s)\n(assert (not %s))\n(echo \"@ob %d\")\n(check-sat)\n(pop 1)\n", ob.Reach, ob.Formula, oi))
		}
		per := 2000
		results, el, _ := runBatch(sb.String(), opt.TmpDir, tag, per, 20+len(sc.obls)*per/1000)
		for _, oi := range order {
			ob := sc.obls[oi]
			// results are keyed by the echoed obligation index, never by position; a vacuity guard that
			// comes back unsat is confirmed by the individual race below before it is reported
			if (ob.Cover || ob.Canary) && results[oi] == "sat" {
				// the solver exhibited an execution that reaches this point: the guard is met
				ob.Status = "sat"
				ob.Solver = "z3-new(batch)"
				ob.Time = el / float64(len(results)+1)
				delete(pending, oi)
				continue
			}
			if results[oi] == "unsat" && !ob.Cover && !ob.Canary {
				ob.Status = "unsat"
				ob.Solver = "z3-new(batch)"
				ob.Time = el / float64(len(results)+1)
				delete(pending, oi)
			}
		}
	}
	var idx []int
	for i := range pending {
		idx = append(idx, i)
	}
	sort.Ints(idx)
	parallel(len(idx), 6, func(k int) {
		ob := sc.obls[idx[k]]
		script := obligationScript(sc, ob, true)
		to := opt.Timeout
		if (ob.Cover || ob.Canary) && to > 2 {
			to = 2
		}
		r := raceSolvers(script, to, opt.TmpDir, fmt.Sprintf("%s.%d", tag, idx[k]), opt.Solvers)
		ob.Status = r.Status
		ob.Solver = r.Solver
		ob.Time = r.Time
		ob.Output = r.Output
		if !opt.KeepSMT && (r.Status == "unsat") {
			os.Remove(fmt.Sprintf("%s/%s.%d.smt2", opt.TmpDir, tag, idx[k]))
		}
	})
}

// ------------------------------------------------------------------ CLI

func main() {
	if len(os.Args) < 2 {
		fmt.Fprintln(os.Stderr, "usage: govc verify|check ...")
		os.Exit(2)
	}
	switch os.Args[1] {
	case "verify":
		cmdVerify(os.Args[2:])
	case "check":
		cmdCheck(os.Args[2:])
	case "dump":
		cmdDump(os.Args[2:])
	case "shapes":
		cmdShapes(os.Args[2:])
	default:
		fmt.Fprintln(os.Stderr, "unknown command")
		os.Exit(2)
	}
}

func cmdDump(args []string) {
	fs := flag.NewFlagSet("dump", flag.ExitOnError)
	repo := fs.String("repo", "/repo", "")
	pk := fs.String("pkgs", "", "")
	fn := fs.String("func", "", "")
	fs.Parse(args)
	sh, err := loadShared(*repo, strings.Split(*pk, ","), "")
	if err != nil {
		fmt.Fprintln(os.Stderr, err)
		os.Exit(2)
	}
	var names []string
	for n := range sh.funcs {
		names = append(names, n)
	}
	sort.Strings(names)
	for _, n := range names {
		if *fn == "" {
			if len(sh.funcs[n].Blocks) > 0 {
				fmt.Println(n)
			}
			continue
		}
		if strings.HasSuffix(n, *fn) {
			sh.funcs[n].WriteTo(os.Stdout)
		}
	}
}

// ad-hoc verification of named functions (development aid)
func cmdVerify(args []string) {
	fs := flag.NewFlagSet("verify", flag.ExitOnError)
	repo := fs.String("repo", "/repo", "")
	pk := fs.String("pkgs", "", "comma separated package paths")
	fnames := fs.String("funcs", "", "comma separated function name suffixes; empty = all with contracts")
	ext := fs.String("ext", "/verif/contracts/ext", "")
	tmp := fs.String("tmp", "/root/scratch/govc", "")
	timeout := fs.Int("timeout", 10, "")
	overflow := fs.Bool("overflow", true, "")
	guards := fs.Bool("guards", false, "")
	verbose := fs.Bool("v", false, "")
	keep := fs.Bool("keep", false, "")
	nobatch := fs.Bool("nobatch", false, "")
	groups := fs.String("groups", "", "comma separated protects-groups")
	only := fs.String("only", "", "comma separated substrings: solve only obligations whose name contains one")
	fs.Parse(args)
	sh, err := loadShared(*repo, strings.Split(*pk, ","), *ext)
	if err != nil {
		fmt.Fprintln(os.Stderr, err)
		os.Exit(2)
	}
	var fns []*ssa.Function
	if *fnames == "*" {
		roots := map[string]bool{}
		for _, p := range strings.Split(*pk, ",") {
			roots[p] = true
		}
		for _, f := range sh.funcs {
			top := f
			for top.Parent() != nil {
				top = top.Parent()
			}
			if len(f.Blocks) > 0 && top.Pkg != nil && roots[top.Pkg.Pkg.Path()] && f.Synthetic == "" {
				fns = append(fns, f)
			}
		}
	} else if *fnames == "" {
		for n := range sh.specs.Funcs {
			if f, ok := sh.funcs[n]; ok && len(f.Blocks) > 0 && (f.Parent() == nil || sh.specs.Funcs[n].Attrs["modular"]) && !sh.specs.Funcs[n].Attrs["inline"] {
				fns = append(fns, f)
			}
		}
	} else {
		for _, want := range strings.Split(*fnames, ",") {
			found := false
			for n, f := range sh.funcs {
				if (n == want || strings.HasSuffix(n, "."+want) || strings.HasSuffix(n, ")."+want) || strings.HasSuffix(n, "/"+want)) && len(f.Blocks) > 0 {
					fns = append(fns, f)
					found = true
				}
			}
			if !found {
				fmt.Fprintf(os.Stderr, "no function matches %q\n", want)
			}
		}
	}
	sort.Slice(fns, func(i, j int) bool { return fns[i].String() < fns[j].String() })
	opt := Options{Overflow: *overflow, Guards: *guards, Timeout: *timeout, TmpDir: *tmp, KeepSMT: *keep, NoBatch: *nobatch}
	if *groups != "" {
		opt.Groups = strings.Split(*groups, ",")
	}
	if *only != "" {
		subs := strings.Split(*only, ",")
		opt.Want = func(ob *Obligation) bool {
			for _, x := range subs {
				if strings.Contains(ob.Name, x) {
					return true
				}
			}
			return false
		}
	}
	results := make([]*FuncResult, len(fns))
	parallel(len(fns), 8, func(i int) { results[i] = sh.verifyFunc(fns[i], opt) })
	bad := 0
	for _, r := range results {
		nOK, nFail := 0, 0
		for _, ob := range r.Obligations {
			if ob.Status == "skipped" {
				continue
			}
			if obOK(ob) {
				nOK++
			} else {
				nFail++
			}
		}
		fmt.Printf("== %s: %d obligations, %d ok, %d not ok (gen %.2fs solve %.2fs, %d lines) %s\n", r.Func, len(r.Obligations), nOK, nFail, r.GenTime, r.SolveTime, r.Lines, r.Err)
		for _, ob := range r.Obligations {
			if ob.Status != "skipped" && (!obOK(ob) || *verbose) {
				fmt.Printf("   [%s] %s  (%s, %s %.2fs) %s\n", obVerdict(ob), ob.Name, ob.Pos, ob.Solver, ob.Time, ob.Src)
			}
		}
		for _, u := range r.Unsupported {
			fmt.Printf("   unsupported: %s\n", u)
		}
		if *verbose {
			for _, a := range r.Havoc {
				fmt.Printf("   havoc callee: %s\n", a)
			}
			for _, a := range r.ExtDefault {
				fmt.Printf("   ext-default: %s\n", a)
			}
		}
		bad += nFail
		if r.Err != "" {
			bad++
		}
	}
	if bad > 0 {
		os.Exit(1)
	}
}

func obOK(ob *Obligation) bool {
	if ob.Cover {
		return ob.Status != "unsat"
	}
	if ob.Canary {
		return ob.Status != "unsat"
	}
	return ob.Status == "unsat"
}

func obVerdict(ob *Obligation) string {
	if obOK(ob) {
		return "ok:" + ob.Status
	}
	return "FAIL:" + ob.Status
}

func writeJSON(path string, v interface{}) error {
	b, err := json.MarshalIndent(v, "", " ")
	if err != nil {
		return err
	}
	return os.WriteFile(path, append(b, '\n'), 0644)
}

// govc shapes [-check]: (re)write /verif/baseline/shapes.json for every function under contract in the packages named
// by props/*.json; with -check only report whether the committed baseline matches the tree
func cmdShapes(args []string) {
	fs := flag.NewFlagSet("shapes", flag.ExitOnError)
	repo := fs.String("repo", "/repo", "")
	verif := fs.String("verif", "/verif", "")
	chk := fs.Bool("check", false, "")
	fs.Parse(args)
	files, _ := filepath.Glob(filepath.Join(*verif, "props", "*.json"))
	set := map[string]bool{}
	for _, f := range files {
		b, err := os.ReadFile(f)
		if err != nil {
			continue
		}
		var c struct {
			Packages []string `json:"packages"`
		}
		json.Unmarshal(b, &c)
		for _, p := range c.Packages {
			set[p] = true
		}
	}
	var pk []string
	for p := range set {
		pk = append(pk, p)
	}
	sort.Strings(pk)
	sh, err := loadShared(*repo, pk, "")
	if err != nil {
		fmt.Fprintln(os.Stderr, err)
		os.Exit(2)
	}
	out := map[string]shapeEntry{}
	for name, sp := range sh.specs.Funcs {
		fn := sh.funcs[name]
		if fn == nil || len(fn.Blocks) == 0 || sp.Trusted {
			continue
		}
		r := rootOf(fn)
		if _, ok := out[r.String()]; !ok {
			out[r.String()] = funcShape(r)
		}
	}
	if *chk {
		base := loadShapes()
		diff := 0
		for k, v := range out {
			if b, ok := base[k]; !ok || b.Hash != v.Hash || strings.Join(b.Names, ",") != strings.Join(v.Names, ",") {
				fmt.Println("differs:", k)
				diff++
			}
		}
		fmt.Printf("%d functions under contract, %d differ from the baseline\n", len(out), diff)
		if diff > 0 {
			os.Exit(1)
		}
		return
	}
	os.MkdirAll(filepath.Dir(shapesFile), 0755)
	fl := sh.repoFuncNames()
	for _, p := range pk {
		fl = append(fl, "pkg:"+p)
	}
	if err := writeJSON(funcsFile, fl); err != nil {
		fmt.Fprintln(os.Stderr, err)
		os.Exit(2)
	}
	if err := writeJSON(shapesFile, out); err != nil {
		fmt.Fprintln(os.Stderr, err)
		os.Exit(2)
	}
	fmt.Printf("wrote %s: %d functions\n", shapesFile, len(out))
}
