package main

import (
	"go/constant"
	"fmt"
	"os"
	"go/ast"
	"go/token"
	"go/types"
	"sort"
	"strings"

	"golang.org/x/tools/go/ssa"
)

type defSite struct {
	block *ssa.BasicBlock
	idx   int
	val   Val
	addr  bool
}

type edgeIn struct {
	reach string
	st    *State
	from  *ssa.BasicBlock
}

type deferRec struct {
	reach string
	block *ssa.BasicBlock
	call  *ssa.CallCommon
	instr ssa.Instruction
	args  []Val
	fnVal Val
}

type loopInfo struct {
	header *ssa.BasicBlock
	body   map[*ssa.BasicBlock]bool
	key    []string // names that identify it
	ord    int
	invs   []*Clause
	dec    *Clause
	decVal string
	hdrSt  *State
}

type Frame struct {
	e       *Engine
	fn      *ssa.Function
	spec    *FuncSpec
	vals    map[ssa.Value]Val
	params  []Val
	free    []Val
	entry   *State
	defers  []*deferRec
	prefix  string
	sites   map[string][]defSite
	loops   map[*ssa.BasicBlock]*loopInfo
	cur     *Cur
	block   *ssa.BasicBlock
	idx     int
	ordinal map[string]int
	inlined bool
	callOrd map[string]int
	retVals []Val
	srcMap  map[token.Pos]string
	matched map[*Clause]bool
	lastRes map[string]Val
	// set on the frame of a helper that is absent from the baseline and is verified as part of its caller (shape.go)
	host     *Frame
	hostNext bool
	// loop ordinals (see findLoops): first virtual ordinal reserved for the loops of a helper called at an instruction;
	// offset of this frame's own numbering; loop clauses of the contract that matched none of this frame's loops
	virtBase     map[ssa.Instruction]int
	virtOffset   int
	pendingLoops map[*Clause]bool
	callCallee   *ssa.Function
	callBindings []Val
	frameLo, frameHi string // position range of the element write being frame-checked
	iters   map[*ssa.Range]string
	lastIter string
}

type Cur struct {
	reach string
	st    *State
}

func (e *Engine) fnName(fn *ssa.Function) string {
	return fn.String()
}

func (e *Engine) specFor(fn *ssa.Function) *FuncSpec {
	s := e.specs.Funcs[e.fnName(fn)]
	if s != nil {
		s.Used = true
	}
	return s
}

func (fr *Frame) posOf(p token.Pos) string {
	if !p.IsValid() {
		return ""
	}
	pp := fr.e.fset.Position(p)
	return fmt.Sprintf("%s:%d", strings.TrimPrefix(pp.Filename, "/repo/"), pp.Line)
}

func (fr *Frame) instrPos() string {
	if fr.block != nil && fr.idx >= 0 && fr.idx < len(fr.block.Instrs) {
		for i := fr.idx; i >= 0; i-- {
			if p := fr.block.Instrs[i].Pos(); p.IsValid() {
				return fr.posOf(p)
			}
		}
	}
	return fr.posOf(fr.fn.Pos())
}

// record an obligation at the current point
func (fr *Frame) oblige(kind, detail, formula string) {
	fr.obligeAt(fr.cur.reach, kind, detail, formula, "")
}

func (fr *Frame) obligeAt(reach, kind, detail, formula, src string) {
	e := fr.e
	if formula == "true" {
		return
	}
	base := fr.prefix + "#" + kind
	if detail != "" {
		base += ":" + detail
	}
	fr.ordinal[base]++
	name := base
	if n := fr.ordinal[base]; n > 1 {
		name = fmt.Sprintf("%s[%d]", base, n)
	}
	ob := &Obligation{Name: name, Kind: kind, Func: fr.prefix, Pos: fr.instrPos(), Reach: reach, Formula: formula, At: len(e.sc.lines), Src: src}
	e.sc.obls = append(e.sc.obls, ob)
	if kind == "assert-at" && fr.ordinal[base] == 1 {
		// path-local vacuity guard (first site of each clause; later instances are mostly deferred calls replayed at
		// every return, some of which are legitimately dead): the program point of a call-site / return / store clause must be reachable under
		// everything assumed so far (an inconsistent assumed contract makes every later clause true for no reason,
		// and the function's exit can still be reachable through an earlier return)
		e.sc.obls = append(e.sc.obls, &Obligation{Name: name + "#reachable", Kind: "cover", Func: fr.prefix, Pos: fr.instrPos(), Reach: reach, Formula: "false", At: len(e.sc.lines), Cover: true})
	}
	e.sc.emit("; obligation " + name)
	for _, x := range e.noAssume {
		if strings.Contains(name, x) {
			e.sc.emit("; (not assumed afterwards)")
			return
		}
	}
	e.sc.assert(sImp(reach, formula))
}

func (fr *Frame) cover(detail, formula string) {
	e := fr.e
	name := fr.prefix + "#cover:" + detail
	fr.ordinal[name]++
	if n := fr.ordinal[name]; n > 1 {
		name = fmt.Sprintf("%s[%d]", name, n)
	}
	ob := &Obligation{Name: name, Kind: "cover", Func: fr.prefix, Pos: fr.instrPos(), Reach: fr.cur.reach, Formula: sNot(formula), At: len(e.sc.lines), Cover: true}
	e.sc.obls = append(e.sc.obls, ob)
}

func (fr *Frame) assumeHere(f string) {
	fr.e.sc.assert(sImp(fr.cur.reach, f))
}

// ------------------------------------------------------------------ operand evaluation

func (fr *Frame) val(v ssa.Value) Val {
	e := fr.e
	switch x := v.(type) {
	case *ssa.Const:
		if x.Value == nil {
			return Val{T: e.zero(x.Type()), Ty: x.Type()}
		}
		return e.constVal(x.Value, x.Type())
	case *ssa.Global:
		name := shortPath(x.Pkg.Pkg.Path()) + "." + x.Name()
		elem := x.Type().(*types.Pointer).Elem()
		return Val{T: e.globalAddr(name), Ty: x.Type(), Src: &addrSrc{kind: "global", global: name, ftype: elem}}
	case *ssa.Function:
		return Val{T: e.funcConst(x), Ty: x.Type(), Clo: &Closure{Fn: x}}
	case *ssa.Builtin:
		return Val{T: "0", Ty: x.Type()}
	}
	if r, ok := fr.vals[v]; ok {
		return r
	}
	// value from an unexecuted block (unreachable) or unsupported instruction: fresh
	t := v.Type()
	r := fr.freshVal("undef$"+v.Name(), t)
	fr.vals[v] = r
	return r
}

func (e *Engine) funcConst(fn *ssa.Function) string {
	return e.funcConstByName(fn.String())
}

func (e *Engine) funcConstByName(full string) string {
	name := "fn$" + full
	q := sym(name)
	if !e.sc.seen[q] {
		e.sc.decl(name, "Int")
		id := len(e.typeIDs) + 5000
		e.typeIDs[name] = id
		e.sc.assert(fmt.Sprintf("(= %s %d)", q, id))
	}
	return q
}

func (fr *Frame) freshVal(prefix string, t types.Type) Val {
	e := fr.e
	if tup, ok := t.(*types.Tuple); ok {
		var vs []Val
		for i := 0; i < tup.Len(); i++ {
			vs = append(vs, fr.freshVal(fmt.Sprintf("%s.%d", prefix, i), tup.At(i).Type()))
		}
		return Val{Tuple: vs, Ty: t}
	}
	c := e.sc.fresh(prefix, e.sortOf(t))
	if r := e.rangeOf(c, t); r != "" {
		e.sc.assert(r)
	}
	return Val{T: c, Ty: t}
}

func (fr *Frame) boundRef(v Val) {
	e := fr.e
	switch v.Ty.Underlying().(type) {
	case *types.Pointer, *types.Map, *types.Chan:
		fr.assumeHere("(<= " + v.T + " " + e.get(fr.cur.st, "alloc") + ")")
	case *types.Slice:
		fr.assumeHere("(<= (s_arr " + v.T + ") " + e.get(fr.cur.st, "alloc") + ")")
	}
}

func (fr *Frame) newRef(prefix string) string {
	e := fr.e
	r := e.sc.fresh(prefix, "Int")
	a := e.get(fr.cur.st, "alloc")
	e.sc.assert("(= " + r + " (+ " + a + " 1))")
	if e.alloc0 != "" {
		e.sc.assert("(> " + r + " " + e.alloc0 + ")")
	}
	e.set(fr.cur.st, "alloc", r)
	return r
}

// ------------------------------------------------------------------ name resolution at a point

func (fr *Frame) record(name string, v Val, addr bool) {
	fr.sites[name] = append(fr.sites[name], defSite{fr.block, fr.idx, v, addr})
}

// #iter: the number of completed iterations of the innermost loop around b, as seen at that loop's header for the
// current iteration. For `for i := range s` (go/ssa keeps a hidden index starting at -1) it is index+1; for a
// counting loop `for i := c; ...; i++` it is i-c. In both forms the element handled by the current iteration is
// s[#iter], so a contract written over #iter does not depend on which of the two loop forms the code uses.
func (fr *Frame) iterAt(b *ssa.BasicBlock, phiMap map[*ssa.Phi]Val) (Val, bool) {
	// a block that leaves the loop (a return in the body, the code after the loop) is not part of the natural loop:
	// it sees the loop of its nearest dominator that is
	var best *loopInfo
	for ; b != nil && best == nil; b = b.Idom() {
		for _, li := range fr.loops {
			if li.header != b && !li.body[b] {
				continue
			}
			if best == nil || len(li.body) < len(best.body) {
				best = li
			}
		}
	}
	if best == nil {
		return Val{}, false
	}
	pv := func(p *ssa.Phi) (Val, bool) {
		if v, ok := phiMap[p]; ok {
			return v, true
		}
		v, ok := fr.vals[p]
		return v, ok
	}
	var found []Val
	for _, in := range best.header.Instrs {
		p, ok := in.(*ssa.Phi)
		if !ok {
			break
		}
		if p.Comment == "rangeindex" {
			if v, ok := pv(p); ok {
				return Val{T: "(+ " + v.T + " 1)", Ty: p.Type()}, true
			}
			return Val{}, false
		}
		if len(p.Edges) != 2 {
			continue
		}
		var init *ssa.Const
		step := false
		for k, ed := range p.Edges {
			pred := best.header.Preds[k]
			inside := best.body[pred] || pred == best.header
			if !inside {
				if c, ok := ed.(*ssa.Const); ok && c.Value != nil && c.Value.Kind() == constant.Int {
					init = c
				}
				continue
			}
			if bo, ok := ed.(*ssa.BinOp); ok && bo.Op == token.ADD {
				one := func(v ssa.Value) bool {
					c, ok := v.(*ssa.Const)
					return ok && c.Value != nil && c.Value.Kind() == constant.Int && c.Value.ExactString() == "1"
				}
				if bo.X == ssa.Value(p) && one(bo.Y) || bo.Y == ssa.Value(p) && one(bo.X) {
					step = true
				}
			}
		}
		if init != nil && step {
			if v, ok := pv(p); ok {
				found = append(found, Val{T: "(- " + v.T + " " + smtInt(init.Value.ExactString()) + ")", Ty: p.Type()})
			}
		}
	}
	if len(found) == 1 {
		return found[0], true
	}
	return Val{}, false
}

func smtInt(s string) string {
	if strings.HasPrefix(s, "-") {
		return "(- " + s[1:] + ")"
	}
	return s
}

func (fr *Frame) resolveAt(name string, b *ssa.BasicBlock, idx int, st *State, phiMap map[*ssa.Phi]Val) (Val, bool) {
	e := fr.e
	if name == "iter" {
		return fr.iterAt(b, phiMap)
	}
	// a variable that lives in a cell (address taken, captured): its value is the cell's current content, not the
	// result of some earlier load
	for _, blk := range fr.fn.Blocks {
		if blk != b && !blk.Dominates(b) {
			continue
		}
		for k, in := range blk.Instrs {
			al, ok := in.(*ssa.Alloc)
			if !ok || al.Comment != name || (blk == b && k >= idx && idx >= 0) {
				continue
			}
			if v, done := fr.vals[al]; done {
				pt := al.Type().Underlying().(*types.Pointer).Elem()
				return Val{T: e.loadAt(st, v.T, v.Src, pt), Ty: pt}, true
			}
		}
	}
	sites := fr.sites[name]
	for i := len(sites) - 1; i >= 0; i-- {
		s := sites[i]
		if s.block == b && s.idx < idx || s.block != b && s.block.Dominates(b) {
			v := s.val
			if phiMap != nil {
				// substitute header phis
				for p, pv := range phiMap {
					if fr.vals[p].T == v.T && p.Comment == name {
						v = pv
					}
				}
			}
			if s.addr {
				pt := v.Ty.Underlying().(*types.Pointer).Elem()
				return Val{T: e.loadAt(st, v.T, v.Src, pt), Ty: pt}, true
			}
			return v, true
		}
	}
	for i, p := range fr.fn.Params {
		if p.Name() == name {
			return fr.params[i], true
		}
	}
	if name == "this" && fr.fn.Signature.Recv() != nil && len(fr.params) > 0 {
		return fr.params[0], true
	}
	for i, p := range fr.fn.FreeVars {
		if p.Name() == name && i < len(fr.free) {
			v := fr.free[i]
			pt := v.Ty.Underlying().(*types.Pointer).Elem()
			return Val{T: e.loadAt(st, v.T, v.Src, pt), Ty: pt}, true
		}
	}
	if fr.host != nil && fr.host.block != nil {
		// a helper verified as part of its caller (shape.go): names it does not have are the caller's, at the call
		return fr.host.resolveAt(name, fr.host.block, fr.host.idx, st, nil)
	}
	return Val{}, false
}

func (fr *Frame) envAt(b *ssa.BasicBlock, idx int, st *State, phiMap map[*ssa.Phi]Val) *Env {
	env := &Env{e: fr.e, st: st, old: fr.entry, names: map[string]Val{}}
	if fr.fn.Pkg != nil {
		env.pkg = fr.fn.Pkg.Pkg
	} else if fr.fn.Parent() != nil && fr.fn.Parent().Pkg != nil {
		env.pkg = fr.fn.Parent().Pkg.Pkg
	}
	env.lookup = func(name string) (Val, bool) {
		return fr.resolveAt(name, b, idx, st, phiMap)
	}
	env.lastResult = func(name string) (Val, bool) {
		v, ok := fr.lastRes[name]
		return v, ok
	}
	env.iterAlloc = func() (string, bool) {
		var best *loopInfo
		for bb := b; bb != nil && best == nil; bb = bb.Idom() {
			for _, li := range fr.loops {
				if li.header != bb && !li.body[bb] {
					continue
				}
				if best == nil || len(li.body) < len(best.body) {
					best = li
				}
			}
		}
		if best == nil || best.hdrSt == nil {
			return "", false
		}
		return fr.e.get(best.hdrSt, "alloc"), true
	}
	env.addrOf = func(name string) (Val, bool) {
		for _, blk := range fr.fn.Blocks {
			if blk != b && !blk.Dominates(b) {
				continue
			}
			for k, in := range blk.Instrs {
				al, ok := in.(*ssa.Alloc)
				if !ok || al.Comment != name || (blk == b && k >= idx && idx >= 0) {
					continue
				}
				if v, done := fr.vals[al]; done {
					return v, true
				}
			}
		}
		return Val{}, false
	}
	env.visitedComp = func() string {
		// the iterator of the innermost map-range loop around (b, idx): the last one whose Range dominates
		best := ""
		for rg, c := range fr.iters {
			rb := rg.Block()
			if rb == b || rb.Dominates(b) {
				if best == "" || c > best {
					best = c
				}
			}
		}
		return best
	}
	env.oldLookup = func(name string) (Val, bool) {
		for i, p := range fr.fn.Params {
			if p.Name() == name && i < len(fr.params) {
				return fr.params[i], true
			}
		}
		if name == "this" && fr.fn.Signature.Recv() != nil && len(fr.params) > 0 {
			return fr.params[0], true
		}
		return fr.resolveAt(name, b, idx, fr.entry, phiMap)
	}
	return env
}

// ------------------------------------------------------------------ loops

func (fr *Frame) findLoops() {
	fn := fr.fn
	fr.loops = map[*ssa.BasicBlock]*loopInfo{}
	for _, b := range fn.Blocks {
		for _, s := range b.Succs {
			if s.Dominates(b) {
				li := fr.loops[s]
				if li == nil {
					li = &loopInfo{header: s, body: map[*ssa.BasicBlock]bool{s: true}}
					fr.loops[s] = li
				}
				// natural loop: nodes reaching b without passing s
				var stack []*ssa.BasicBlock
				if !li.body[b] {
					li.body[b] = true
					stack = append(stack, b)
				}
				for len(stack) > 0 {
					x := stack[len(stack)-1]
					stack = stack[:len(stack)-1]
					for _, p := range x.Preds {
						if !li.body[p] {
							li.body[p] = true
							stack = append(stack, p)
						}
					}
				}
			}
		}
	}
	if len(fr.loops) == 0 {
		fr.matchLoopClauses(nil)
		return
	}
	// source-order ordinals and keys from the AST
	var astLoops []ast.Node
	if syn := fn.Syntax(); syn != nil {
		var body ast.Node
		switch s := syn.(type) {
		case *ast.FuncDecl:
			body = s.Body
		case *ast.FuncLit:
			body = s.Body
		}
		if body != nil {
			ast.Inspect(body, func(n ast.Node) bool {
				switch n.(type) {
				case *ast.FuncLit:
					return false
				case *ast.ForStmt, *ast.RangeStmt:
					astLoops = append(astLoops, n)
				}
				return true
			})
		}
	}
	// order headers by the minimal position of instructions in the loop body
	type hp struct {
		h   *ssa.BasicBlock
		pos token.Pos
	}
	var hs []hp
	for h, li := range fr.loops {
		min := token.Pos(1 << 40)
		for b := range li.body {
			for _, in := range b.Instrs {
				if _, ok := in.(*ssa.DebugRef); ok {
					continue
				}
				if _, ok := in.(*ssa.Phi); ok {
					continue
				}
				if p := in.Pos(); p.IsValid() && p < min {
					min = p
				}
			}
		}
		hs = append(hs, hp{h, min})
	}
	sort.Slice(hs, func(i, j int) bool {
		if hs[i].pos != hs[j].pos {
			return hs[i].pos < hs[j].pos
		}
		return hs[i].h.Index < hs[j].h.Index
	})
	// loop ordinals count the loops of helpers that are verified as part of this function (shape.go) at the place of
	// their call, so `loop #3` keeps its meaning when the third loop is moved into such a helper
	type hcall struct {
		in  ssa.Instruction
		pos token.Pos
		n   int
	}
	var hcalls []hcall
	for _, b := range fn.Blocks {
		for _, in := range b.Instrs {
			if c, ok := in.(*ssa.Call); ok {
				if f := c.Call.StaticCallee(); f != nil && fr.e.newHelpers[f] && fr.e.specs.Funcs[f.String()] == nil {
					if n := fr.e.loopCount(f, 0); n > 0 {
						hcalls = append(hcalls, hcall{in, in.Pos(), n})
					}
				}
			}
		}
	}
	sort.Slice(hcalls, func(i, j int) bool { return hcalls[i].pos < hcalls[j].pos })
	fr.virtBase = map[ssa.Instruction]int{}
	virt := fr.virtOffset
	hc := 0
	for i, x := range hs {
		for hc < len(hcalls) && hcalls[hc].pos < x.pos {
			fr.virtBase[hcalls[hc].in] = virt
			virt += hcalls[hc].n
			hc++
		}
		virt++
		li := fr.loops[x.h]
		li.ord = i + 1
		li.key = append(li.key, fmt.Sprintf("#%d", virt))
		if os.Getenv("GOVC_DEBUG_LOOPS") != "" {
			fmt.Fprintf(os.Stderr, "loop %d in %s: minpos=%v astLoops=%d syn=%T\n", i+1, fn, fr.e.fset.Position(x.pos), len(astLoops), fn.Syntax())
		}
		// match AST loop: smallest statement covering the position
		var best ast.Node
		for _, n := range astLoops {
			if n.Pos() <= x.pos && x.pos <= n.End() {
				if best == nil || (n.End()-n.Pos()) < (best.End()-best.Pos()) {
					best = n
				}
			}
		}
		// the minimal position of an outer loop lies in its own header, before the inner statement,
		// so the smallest covering statement is the right one in the usual shapes
		if best != nil {
			switch s := best.(type) {
			case *ast.RangeStmt:
				if id, ok := s.Key.(*ast.Ident); ok && id.Name != "_" {
					li.key = append(li.key, id.Name)
				}
				if id, ok := s.Value.(*ast.Ident); ok && id.Name != "_" {
					li.key = append(li.key, id.Name)
				}
				li.key = append(li.key, "range("+exprString(s.X)+")")
			case *ast.ForStmt:
				if as, ok := s.Init.(*ast.AssignStmt); ok {
					for _, l := range as.Lhs {
						if id, ok := l.(*ast.Ident); ok {
							li.key = append(li.key, id.Name)
						}
					}
				}
				if s.Cond != nil {
					li.key = append(li.key, "for("+exprString(s.Cond)+")")
				}
			}
		}
	}
	for ; hc < len(hcalls); hc++ {
		fr.virtBase[hcalls[hc].in] = virt
		virt += hcalls[hc].n
	}
	// phi comments of the header (source variables modified in the loop) are keys as well
	var ordered []*loopInfo
	for _, x := range hs {
		li := fr.loops[x.h]
		ordered = append(ordered, li)
		for _, in := range li.header.Instrs {
			p, ok := in.(*ssa.Phi)
			if !ok {
				break
			}
			if p.Comment != "" && p.Comment != "rangeindex" {
				li.key = append(li.key, p.Comment)
			}
		}
	}
	fr.matchLoopClauses(ordered)
}

// matchLoopClauses attaches loop clauses to the loops of this frame. A frame with a contract matches its own clauses;
// clauses that match none of its loops are kept pending for the loops of helpers verified as part of it (shape.go)
// and reported at the end of the function if nobody took them. The frame of such a helper takes pending clauses of
// the outermost host (by virtual ordinal or by variable name) and the host's `*` invariants.
func (fr *Frame) matchLoopClauses(ordered []*loopInfo) {
	attach := func(li *loopInfo, c *Clause) {
		if c.Kind == "inv" {
			li.invs = append(li.invs, c)
		} else {
			li.dec = c
		}
	}
	find := func(c *Clause) *loopInfo {
		for _, li := range ordered {
			for _, k := range li.key {
				if k == c.Key {
					return li
				}
			}
		}
		return nil
	}
	if fr.host != nil {
		top := fr.host
		for top.host != nil {
			top = top.host
		}
		if top.spec == nil {
			return
		}
		for _, c := range top.spec.Loops {
			if c.Key == "*" {
				if c.Kind == "inv" {
					for _, li := range ordered {
						li.invs = append(li.invs, c)
					}
				}
				continue
			}
			if !top.pendingLoops[c] {
				continue
			}
			if li := find(c); li != nil {
				attach(li, c)
				delete(top.pendingLoops, c)
			}
		}
		return
	}
	if fr.spec == nil {
		return
	}
	fr.pendingLoops = map[*Clause]bool{}
	for _, c := range fr.spec.Loops {
		if c.Key == "*" {
			if c.Kind == "inv" {
				for _, li := range ordered {
					li.invs = append(li.invs, c)
				}
			}
			continue
		}
		if li := find(c); li != nil {
			attach(li, c)
			continue
		}
		fr.pendingLoops[c] = true
	}
}

// loops in fn, counting those of helpers verified as part of it
func (e *Engine) loopCount(fn *ssa.Function, depth int) int {
	hdr := map[*ssa.BasicBlock]bool{}
	n := 0
	for _, b := range fn.Blocks {
		for _, s := range b.Succs {
			if s.Dominates(b) && !hdr[s] {
				hdr[s] = true
				n++
			}
		}
		for _, in := range b.Instrs {
			if c, ok := in.(*ssa.Call); ok && depth < 6 {
				if f := c.Call.StaticCallee(); f != nil && e.newHelpers[f] && e.specs.Funcs[f.String()] == nil {
					n += e.loopCount(f, depth+1)
				}
			}
		}
	}
	return n
}

func exprString(x ast.Expr) string {
	switch v := x.(type) {
	case *ast.Ident:
		return v.Name
	case *ast.SelectorExpr:
		return exprString(v.X) + "." + v.Sel.Name
	case *ast.BinaryExpr:
		return exprString(v.X) + v.Op.String() + exprString(v.Y)
	case *ast.BasicLit:
		return v.Value
	case *ast.CallExpr:
		return exprString(v.Fun) + "()"
	case *ast.ParenExpr:
		return exprString(v.X)
	case *ast.IndexExpr:
		return exprString(v.X) + "[]"
	case *ast.StarExpr:
		return "*" + exprString(v.X)
	case *ast.UnaryExpr:
		return v.Op.String() + exprString(v.X)
	}
	return "?"
}

// ------------------------------------------------------------------ state merge

func (e *Engine) merge(ins []edgeIn) *State {
	if len(ins) == 1 {
		return ins[0].st.clone()
	}
	keys := map[string]bool{}
	for _, in := range ins {
		for k := range in.st.comps {
			keys[k] = true
		}
	}
	out := &State{comps: map[string]string{}, base: ins[0].st.base}
	sameBase := true
	for _, in := range ins {
		if in.st.base != ins[0].st.base {
			sameBase = false
		}
	}
	if !sameBase {
		// need a fresh base: everything not mentioned is unknown
		e.sc.n++
		out.base = fmt.Sprintf("m%d", e.sc.n)
		for k := range e.compSort {
			keys[k] = true
		}
	}
	for _, k := range sortedKeys(keys) {
		first := e.get(ins[0].st, k)
		same := true
		for _, in := range ins[1:] {
			if e.get(in.st, k) != first {
				same = false
				break
			}
		}
		if same {
			out.comps[k] = first
			continue
		}
		c := e.sc.fresh(k, e.compSort[k])
		for _, in := range ins {
			e.sc.assert(sImp(in.reach, "(= "+c+" "+e.get(in.st, k)+")"))
		}
		if k == "alloc" && e.alloc0 != "" {
			e.sc.assert("(>= " + c + " " + e.alloc0 + ")")
		}
		out.comps[k] = c
	}
	return out
}

func (e *Engine) totalHavoc(st *State) *State {
	return e.totalHavocG(st, true)
}

// keepGhosts: ghost protocol state (locks held, open transaction, unsynced files) is only changed by callees
// whose contract says so; code without a contract is assumed not to touch it (assumption, listed)
func (e *Engine) totalHavocG(st *State, keepGhosts bool) *State {
	e.sc.n++
	n := &State{comps: map[string]string{}, base: fmt.Sprintf("h%d", e.sc.n)}
	for c := range e.compSort {
		if e.isLockGhost(c) || keepGhosts && strings.HasPrefix(c, "ghost$") {
			n.comps[c] = e.get(st, c)
		}
	}
	if keepGhosts {
		e.assume("callees without a contract do not change ghost protocol state (locks held, open transaction, unsynced file data)")
	}
	// local variables whose address never reaches unknown code keep their values
	for _, lc := range e.localCells {
		e.sc.assert("(= (select " + e.get(n, lc.comp) + " " + lc.ref + ") (select " + e.get(st, lc.comp) + " " + lc.ref + "))")
	}
	// keep the allocation watermark monotone
	if a, ok := st.comps["alloc"]; ok {
		na := e.sc.fresh("alloc", "Int")
		e.sc.assert("(>= " + na + " " + a + ")")
		n.comps["alloc"] = na
	} else {
		a := e.get(st, "alloc")
		na := e.sc.fresh("alloc", "Int")
		e.sc.assert("(>= " + na + " " + a + ")")
		n.comps["alloc"] = na
	}
	return n
}

// ------------------------------------------------------------------ function execution

func (e *Engine) newFrame(fn *ssa.Function, prefix string) *Frame {
	fr := &Frame{e: e, fn: fn, vals: map[ssa.Value]Val{}, sites: map[string][]defSite{}, ordinal: map[string]int{}, callOrd: map[string]int{}, prefix: prefix, iters: map[*ssa.Range]string{}, matched: map[*Clause]bool{}, lastRes: map[string]Val{}}
	fr.spec = e.specFor(fn)
	return fr
}

func rpo(fn *ssa.Function) []*ssa.BasicBlock {
	seen := map[*ssa.BasicBlock]bool{}
	var post []*ssa.BasicBlock
	var dfs func(b *ssa.BasicBlock)
	dfs = func(b *ssa.BasicBlock) {
		seen[b] = true
		for _, s := range b.Succs {
			if !seen[s] && !s.Dominates(b) {
				dfs(s)
			}
		}
		post = append(post, b)
	}
	if len(fn.Blocks) > 0 {
		dfs(fn.Blocks[0])
	}
	for i, j := 0, len(post)-1; i < j; i, j = i+1, j-1 {
		post[i], post[j] = post[j], post[i]
	}
	return post
}

type retRec struct {
	reach string
	st    *State
	vals  []Val
}

// exec runs fn from (reach, st) and returns the merged exit.
func (fr *Frame) exec(reach string, st *State) (string, *State, []Val) {
	e := fr.e
	fn := fr.fn
	if len(fn.Blocks) == 0 {
		panic("no body: " + fn.String())
	}
	fr.entry = st.clone()
	fr.findLoops()
	incoming := map[*ssa.BasicBlock][]edgeIn{}
	incoming[fn.Blocks[0]] = []edgeIn{{reach, st, nil}}
	var rets []retRec
	for _, b := range rpo(fn) {
		ins := incoming[b]
		if len(ins) == 0 {
			continue
		}
		fr.block = b
		fr.idx = -1
		li := fr.loops[b]
		var breach string
		var bst *State
		if li != nil {
			breach, bst = fr.enterLoop(li, ins)
		} else {
			var rs []string
			for _, in := range ins {
				rs = append(rs, in.reach)
			}
			breach = e.sc.define("reach$"+fmt.Sprint(b.Index), "Bool", sOr(rs...))
			bst = e.merge(ins)
			for _, in := range b.Instrs {
				phi, ok := in.(*ssa.Phi)
				if !ok {
					break
				}
				fr.doPhi(phi, b, ins)
			}
		}
		fr.cur = &Cur{breach, bst}
		for i, in := range b.Instrs {
			fr.idx = i
			if _, ok := in.(*ssa.Phi); ok {
				if p := in.(*ssa.Phi); p.Comment != "" {
					fr.record(p.Comment, fr.vals[p], false)
					if li == nil {
						fr.assertAtJoin(p)
					}
				}
				continue
			}
			fr.step(in, incoming, &rets)
		}
	}
	// every call-site clause must have found its call: a clause that matches nothing checks nothing
	if fr.spec != nil && fr.host == nil {
		for _, c := range fr.spec.Loops {
			if fr.pendingLoops[c] {
				var have []string
				for _, li := range fr.loops {
					have = append(have, strings.Join(li.key, "|"))
				}
				e.unsupported = append(e.unsupported, fmt.Sprintf("%s: loop clause key %q matches no loop (%s:%d); loops: %v", fr.prefix, c.Key, c.File, c.Line, have))
			}
		}
	}
	if fr.spec != nil {
		for _, c := range append(append([]*Clause{}, fr.spec.Asserts...), fr.spec.Assumes...) {
			if strings.HasPrefix(c.Key, "store ") && !fr.matched[c] && !c.Optional {
				e.unsupported = append(e.unsupported, fmt.Sprintf("%s: %s %q [%s] matches no store (%s:%d)", fr.prefix, c.Kind, c.Key, labelOr(c), c.File, c.Line))
			}
			if strings.HasPrefix(c.Key, "join ") && !fr.matched[c] {
				e.unsupported = append(e.unsupported, fmt.Sprintf("%s: %s %q [%s] matches no merge point of that variable (%s:%d)", fr.prefix, c.Kind, c.Key, labelOr(c), c.File, c.Line))
			}
			if c.Key == "mapupdate" && !fr.matched[c] {
				e.unsupported = append(e.unsupported, fmt.Sprintf("%s: %s %q [%s] matches no map update (%s:%d)", fr.prefix, c.Kind, c.Key, labelOr(c), c.File, c.Line))
			}
			if c.Key == "send" && !fr.matched[c] {
				e.unsupported = append(e.unsupported, fmt.Sprintf("%s: %s %q [%s] matches no channel send (%s:%d)", fr.prefix, c.Kind, c.Key, labelOr(c), c.File, c.Line))
			}
			if strings.HasPrefix(c.Key, "return#") && !fr.matched[c] {
				e.unsupported = append(e.unsupported, fmt.Sprintf("%s: %s %q [%s] matches no reachable return statement (%s:%d)", fr.prefix, c.Kind, c.Key, labelOr(c), c.File, c.Line))
			}
			if strings.HasPrefix(c.Key, "call ") && !fr.matched[c] && !c.Optional {
				e.unsupported = append(e.unsupported, fmt.Sprintf("%s: %s %q [%s] matches no call site (%s:%d)", fr.prefix, c.Kind, c.Key, labelOr(c), c.File, c.Line))
			}
		}
	}
	// merge returns
	if len(rets) == 0 {
		return "false", st, nil
	}
	var rs []string
	var eins []edgeIn
	for _, r := range rets {
		rs = append(rs, r.reach)
		eins = append(eins, edgeIn{r.reach, r.st, nil})
	}
	outReach := e.sc.define("exit$"+sanitize(fr.prefix), "Bool", sOr(rs...))
	outSt := e.merge(eins)
	var results []Val
	nres := fn.Signature.Results().Len()
	for i := 0; i < nres; i++ {
		t := fn.Signature.Results().At(i).Type()
		if len(rets) == 1 {
			results = append(results, rets[0].vals[i])
			continue
		}
		same := true
		for _, r := range rets[1:] {
			if r.vals[i].T != rets[0].vals[i].T {
				same = false
			}
		}
		if same {
			results = append(results, rets[0].vals[i])
			continue
		}
		c := e.sc.fresh("ret", e.sortOf(t))
		for _, r := range rets {
			e.sc.assert(sImp(r.reach, "(= "+c+" "+r.vals[i].T+")"))
		}
		results = append(results, Val{T: c, Ty: t})
	}
	return outReach, outSt, results
}

func sanitize(s string) string {
	return strings.NewReplacer("|", "!", " ", "_").Replace(s)
}

func (fr *Frame) doPhi(phi *ssa.Phi, b *ssa.BasicBlock, ins []edgeIn) {
	e := fr.e
	// if all incoming operands are the same term, reuse
	var ops []Val
	for _, in := range ins {
		for k, p := range b.Preds {
			if p == in.from {
				ops = append(ops, fr.val(phi.Edges[k]))
				break
			}
		}
	}
	if len(ops) != len(ins) {
		fr.vals[phi] = fr.freshVal("phi$"+phi.Name(), phi.Type())
		return
	}
	same := true
	for _, o := range ops[1:] {
		if o.T != ops[0].T {
			same = false
		}
	}
	if same && len(ops) > 0 {
		v := ops[0]
		v.Ty = phi.Type()
		fr.vals[phi] = v
		return
	}
	c := e.sc.fresh("phi$"+phi.Comment, e.sortOf(phi.Type()))
	for i, in := range ins {
		e.sc.assert(sImp(in.reach, "(= "+c+" "+ops[i].T+")"))
	}
	v := Val{T: c, Ty: phi.Type()}
	if ops[0].From != nil {
		same := true
		for _, o := range ops[1:] {
			if o.From == nil || *o.From != *ops[0].From {
				same = false
			}
		}
		if same {
			v.From = ops[0].From
		}
	}
	// keep closure info if all operands agree
	if ops[0].Clo != nil {
		ok := true
		for _, o := range ops[1:] {
			if o.Clo == nil || o.Clo.Fn != ops[0].Clo.Fn {
				ok = false
			}
		}
		if ok {
			v.Clo = ops[0].Clo
		}
	}
	fr.vals[phi] = v
}

func (fr *Frame) phiOperandFrom(phi *ssa.Phi, from *ssa.BasicBlock) Val {
	for k, p := range phi.Block().Preds {
		if p == from {
			return fr.val(phi.Edges[k])
		}
	}
	return fr.freshVal("phiop", phi.Type())
}

func (fr *Frame) enterLoop(li *loopInfo, ins []edgeIn) (string, *State) {
	e := fr.e
	b := li.header
	var phis []*ssa.Phi
	for _, in := range b.Instrs {
		if p, ok := in.(*ssa.Phi); ok {
			phis = append(phis, p)
		} else {
			break
		}
	}
	// inv-init on each entry edge
	for _, in := range ins {
		pm := map[*ssa.Phi]Val{}
		for _, p := range phis {
			pm[p] = fr.phiOperandFrom(p, in.from)
		}
		for _, c := range li.invs {
			env := fr.envLoop(li, in.st, pm)
			t, err := env.Goal(c.Expr)
			if err != nil {
				e.unsupported = append(e.unsupported, fmt.Sprintf("%s: loop invariant %s:%d: %v", fr.prefix, c.File, c.Line, err))
				continue
			}
			fr.obligeAt(in.reach, "inv-init", fr.loopLabel(li, c), t, c.Src)
		}
	}
	var rs []string
	for _, in := range ins {
		rs = append(rs, in.reach)
	}
	reach := e.sc.define("reach$loop"+fmt.Sprint(b.Index), "Bool", sOr(rs...))
	st := e.merge(ins)
	// havoc what the loop modifies
	mi := &modInfo{comps: map[string]bool{}}
	var blocks []*ssa.BasicBlock
	for bb := range li.body {
		blocks = append(blocks, bb)
	}
	sort.Slice(blocks, func(i, j int) bool { return blocks[i].Index < blocks[j].Index })
	e.scanBlocks(fr.fn, blocks, mi, map[*ssa.Function]bool{})
	if mi.all {
		st = e.totalHavoc(st)
		for _, c := range sortedKeys(mi.comps) {
			if !e.isLockGhost(c) {
				e.havocComp(st, c)
			}
		}
	} else {
		for _, c := range sortedKeys(mi.comps) {
			e.havocComp(st, c)
		}
		if mi.allocs {
			a := e.get(st, "alloc")
			na := e.sc.fresh("alloc", "Int")
			e.sc.assert("(>= " + na + " " + a + ")")
			st.comps["alloc"] = na
		}
	}
	// map iterations advanced inside the loop: their visited sets are arbitrary at the header
	for _, bb := range blocks {
		for _, in := range bb.Instrs {
			if nx, ok := in.(*ssa.Next); ok {
				if rg, ok := nx.Iter.(*ssa.Range); ok {
					if c, has := fr.iters[rg]; has {
						e.havocComp(st, c)
					}
				}
			}
		}
	}
	pm := map[*ssa.Phi]Val{}
	for _, p := range phis {
		v := fr.freshVal("phi$"+p.Comment, p.Type())
		// keep closure info
		fr.vals[p] = v
		pm[p] = v
	}
	fr.cur = &Cur{reach, st}
	for _, p := range phis {
		fr.boundRef(fr.vals[p])
	}
	// automatic facts for range-index loops: -1 <= idx
	for _, p := range phis {
		if p.Comment == "rangeindex" {
			e.sc.assert(sImp(reach, "(<= (- 1) "+fr.vals[p].T+")"))
			// compiler-generated shape: t = phi+1; if t < len goto body. Hence phi < len always.
			for _, in := range b.Instrs {
				cmp, ok := in.(*ssa.BinOp)
				if !ok || cmp.Op != token.LSS {
					continue
				}
				if inc, ok := cmp.X.(*ssa.BinOp); ok && inc.Op == token.ADD && inc.X == ssa.Value(p) {
					if _, isPhi := cmp.Y.(*ssa.Phi); !isPhi {
						e.sc.assert(sImp(reach, "(< "+fr.vals[p].T+" "+fr.val(cmp.Y).T+")"))
					}
				}
			}
		}
	}
	li.hdrSt = st.clone()
	for _, c := range li.invs {
		env := fr.envLoop(li, st, pm)
		t, err := env.Bool(c.Expr)
		if err != nil {
			continue
		}
		e.sc.emit("; loop invariant assumed: " + c.Src)
		e.sc.assert(sImp(reach, t))
		e.noteFacts(env, c.Expr, reach)
	}
	if li.dec != nil {
		env := fr.envLoop(li, st, pm)
		v, err := env.Val(li.dec.Expr)
		if err != nil {
			e.unsupported = append(e.unsupported, fmt.Sprintf("%s: decreases %s:%d: %v", fr.prefix, li.dec.File, li.dec.Line, err))
		} else {
			li.decVal = e.sc.define("variant", "Int", v.T)
		}
	}
	return reach, st
}

func (fr *Frame) loopLabel(li *loopInfo, c *Clause) string {
	l := c.Label
	if l == "" {
		l = fmt.Sprintf("L%d", c.Line)
	}
	return fmt.Sprintf("loop%d[%s]", li.ord, l)
}

func (fr *Frame) envLoop(li *loopInfo, st *State, pm map[*ssa.Phi]Val) *Env {
	b := li.header
	env := fr.envAt(b, 0, st, nil)
	inner := env.lookup
	env.lookup = func(name string) (Val, bool) {
		if name == "iter" {
			return fr.iterAt(b, pm)
		}
		for p, v := range pm {
			if p.Comment == name {
				return v, true
			}
		}
		return inner(name)
	}
	return env
}

func (fr *Frame) backEdge(li *loopInfo, reach string, st *State, from *ssa.BasicBlock) {
	e := fr.e
	pm := map[*ssa.Phi]Val{}
	for _, in := range li.header.Instrs {
		if p, ok := in.(*ssa.Phi); ok {
			pm[p] = fr.phiOperandFrom(p, from)
		} else {
			break
		}
	}
	for _, c := range li.invs {
		env := fr.envLoop(li, st, pm)
		t, err := env.Goal(c.Expr)
		if err != nil {
			continue
		}
		fr.obligeAt(reach, "inv-pres", fr.loopLabel(li, c), t, c.Src)
	}
	if li.dec != nil && li.decVal != "" {
		env := fr.envLoop(li, st, pm)
		v, err := env.Val(li.dec.Expr)
		if err == nil {
			fr.obligeAt(reach, "variant", fmt.Sprintf("loop%d", li.ord), "(and (>= "+li.decVal+" 0) (< "+v.T+" "+li.decVal+"))", li.dec.Src)
		}
	}
	_ = e
}

// ------------------------------------------------------------------ instruction semantics

func (fr *Frame) edge(to *ssa.BasicBlock, cond string, incoming map[*ssa.BasicBlock][]edgeIn) {
	e := fr.e
	r := e.sc.define("edge", "Bool", sAnd(fr.cur.reach, cond))
	if to.Dominates(fr.block) {
		if li := fr.loops[to]; li != nil {
			fr.backEdge(li, r, fr.cur.st, fr.block)
		}
		return
	}
	incoming[to] = append(incoming[to], edgeIn{r, fr.cur.st.clone(), fr.block})
}

func (fr *Frame) step(in ssa.Instruction, incoming map[*ssa.BasicBlock][]edgeIn, rets *[]retRec) {
	e := fr.e
	cur := fr.cur
	switch x := in.(type) {
	case *ssa.DebugRef:
		if id, ok := x.Expr.(*ast.Ident); ok {
			if obj := x.Object(); obj != nil {
				if v, isVar := obj.(*types.Var); isVar && !v.IsField() {
					fr.record(id.Name, fr.val(x.X), x.IsAddr)
				}
			}
		}
	case *ssa.If:
		c := fr.val(x.Cond).T
		fr.edge(fr.block.Succs[0], c, incoming)
		fr.edge(fr.block.Succs[1], sNot(c), incoming)
	case *ssa.Jump:
		fr.edge(fr.block.Succs[0], "true", incoming)
	case *ssa.Return:
		var vs []Val
		for _, r := range x.Results {
			vs = append(vs, fr.val(r))
		}
		fr.atReturn(vs)
		*rets = append(*rets, retRec{cur.reach, cur.st.clone(), vs})
	case *ssa.Panic:
		if fr.e.checks("panic") {
			fr.oblige("panic", "explicit", sNot(cur.reach))
		}
	case *ssa.RunDefers:
		fr.runDefers()
	case *ssa.Defer:
		var args []Val
		for _, a := range x.Call.Args {
			args = append(args, fr.val(a))
		}
		d := &deferRec{reach: cur.reach, block: fr.block, call: &x.Call, instr: x, args: args}
		if !x.Call.IsInvoke() {
			d.fnVal = fr.val(x.Call.Value)
		} else {
			d.fnVal = fr.val(x.Call.Value)
		}
		fr.defers = append(fr.defers, d)
	case *ssa.Go:
		{
			name := "dynamic"
			if f := x.Call.StaticCallee(); f != nil {
				name = e.fnName(f)
			} else if x.Call.IsInvoke() {
				name = x.Call.Method.FullName()
			}
			var args []Val
			for _, a := range x.Call.Args {
				args = append(args, fr.val(a))
			}
			fr.assertAtCall(name, args, x.Call.Signature())
			fr.effectCheckCallee(x.Call.StaticCallee(), name)
			fr.captureCheck(x.Call.Value, "go")
			for _, a := range x.Call.Args {
				fr.captureCheck(a, "go")
			}
		}
		e.assume("goroutine bodies are not interleaved (" + fr.prefix + " spawns one); shared state is covered only through lockset obligations")
	case *ssa.Store:
		fr.doStore(x)
	case *ssa.MapUpdate:
		m := fr.val(x.Map)
		k := fr.val(x.Key)
		v := fr.val(x.Value)
		mt := m.Ty.Underlying().(*types.Map)
		if e.checks("nil") {
			fr.oblige("nil", "mapupdate("+fr.srcText(x.Pos(), fr.stableName(x.Map))+")", "(not (= "+m.T+" 0))")
		}
		dom, val := e.mapComps(mt)
		if m.From != nil {
			fr.lockCheck(Val{Src: m.From}, true)
		}
		fr.checkFrame(dom, m.T, "map")
		d := e.get(cur.st, dom)
		vv := e.get(cur.st, val)
		fr.assertAtMapUpdate(m, k, v,
			Val{T: fmt.Sprintf("(select (select %s %s) %s)", d, m.T, k.T), Ty: types.Typ[types.Bool]},
			Val{T: fmt.Sprintf("(select (select %s %s) %s)", vv, m.T, k.T), Ty: mt.Elem()})
		e.set(cur.st, dom, fmt.Sprintf("(store %s %s (store (select %s %s) %s true))", d, m.T, d, m.T, k.T))
		e.set(cur.st, val, fmt.Sprintf("(store %s %s (store (select %s %s) %s %s))", vv, m.T, vv, m.T, k.T, v.T))
	case *ssa.Send:
		// the send itself is abstracted; `assert-at send` clauses are checked here
		fr.assertAtSend(fr.val(x.Chan), fr.val(x.X))
	case ssa.Value:
		fr.vals[x] = fr.value(x)
	default:
		e.unsupported = append(e.unsupported, fmt.Sprintf("%s: instruction %T", fr.prefix, in))
	}
}

func (e *Engine) checks(kind string) bool {
	switch kind {
	case "overflow":
		return e.checkOverflow
	}
	return true
}

func (fr *Frame) nilCheck(v Val, what string) {
	if !fr.e.checks("nil") {
		return
	}
	if strings.HasPrefix(v.T, "(|fa$") || strings.HasPrefix(v.T, "(fa$") || strings.HasPrefix(v.T, "gaddr$") || strings.HasPrefix(v.T, "|gaddr$") || strings.HasPrefix(v.T, "(|box$") || strings.HasPrefix(v.T, "(box$") {
		return
	}
	fr.oblige("nil", what, "(not (= "+v.T+" 0))")
}

func (fr *Frame) doStore(x *ssa.Store) {
	e := fr.e
	a := fr.val(x.Addr)
	v := fr.val(x.Val)
	pt := a.Ty.Underlying().(*types.Pointer).Elem()
	if a.Src == nil {
		fr.nilCheck(a, "store("+fr.srcText(x.Pos(), "*"+fr.stableName(x.Addr))+")")
	}
	fr.lockCheck(a, true)
	// frame
	comps := map[string]bool{}
	e.compsOfStore(a.Src, pt, comps)
	target := a.T
	if a.Src != nil {
		switch a.Src.kind {
		case "field":
			target = a.Src.base
		case "elem":
			target = a.Src.arr
		case "global":
			target = ""
		}
	}
	if a.Src != nil && a.Src.kind == "elem" {
		fr.frameLo, fr.frameHi = a.Src.pos, "(+ "+a.Src.pos+" 1)"
	}
	for _, c := range sortedKeys(comps) {
		fr.checkFrame(c, target, "store")
	}
	fr.frameLo, fr.frameHi = "", ""
	fr.assertAtStore(a, v)
	if fa, ok := x.Addr.(*ssa.FieldAddr); ok && a.Src == nil {
		bv := fr.val(fa.X)
		if bp, ok := bv.Ty.Underlying().(*types.Pointer); ok {
			if st, ok := isStruct(bp.Elem()); ok {
				fr.assertAtStoreField(e.structKey(bp.Elem()), st.Field(fa.Field).Name(), bv.T, v)
			}
		}
	}
	e.storeAt(fr.cur.st, a.T, a.Src, pt, v.T)
}

// frame permission for a write to component c at object addr
func (fr *Frame) checkFrame(c, addr, what string) {
	e := fr.e
	if e.topSpec == nil || !e.topSpec.HasMod || e.modAll {
		return
	}
	if strings.HasPrefix(c, "ghost$") {
		// ghost components are framed semantically at exit (ghostframe obligations), not per write
		return
	}
	var alts []string
	for _, m := range e.modTargets {
		if m.comp != c {
			continue
		}
		if m.whole {
			return
		}
		if addr != "" {
			eq := "(= " + addr + " " + m.addr + ")"
			if m.lo != "" && fr.frameLo != "" {
				eq = sAnd(eq, "(<= "+m.lo+" "+fr.frameLo+")", "(<= "+fr.frameHi+" "+m.hi+")")
			}
			alts = append(alts, eq)
		}
	}
	if addr != "" && !strings.HasPrefix(c, "ghost$") {
		alts = append(alts, "(> "+addr+" "+e.alloc0+")")
		// derived addresses (embedded structs / arrays) of fresh objects
		if root := faRoot(addr); root != addr {
			alts = append(alts, "(> "+root+" "+e.alloc0+")")
		}
		rootof := e.sc.declFun("rootof", []string{"Int"}, "Int")
		alts = append(alts, "(and (< "+addr+" 0) (> ("+rootof+" "+addr+") "+e.alloc0+"))")
	}
	fr.oblige("frame", what+"("+c+")", sOr(alts...))
}

func (fr *Frame) atReturn(vs []Val) {
	// assert-at return clauses
	if fr.spec == nil {
		return
	}
	for _, c := range fr.spec.Asserts {
		if c.Key != "return" && !strings.HasPrefix(c.Key, "return#") {
			continue
		}
		if strings.HasPrefix(c.Key, "return#") {
			want := 0
			fmt.Sscanf(strings.TrimPrefix(c.Key, "return#"), "%d", &want)
			ord, total := fr.returnOrdinal2()
			if want < 0 {
				want = total + want + 1
			}
			if want != ord {
				continue
			}
		}
		fr.matched[c] = true
		env := fr.envAt(fr.block, fr.idx, fr.cur.st, nil)
		fr.bindResults(env, vs)
		t, err := env.Goal(c.Expr)
		if err != nil {
			fr.e.unsupported = append(fr.e.unsupported, fmt.Sprintf("%s: assert-at return %s:%d: %v", fr.prefix, c.File, c.Line, err))
			continue
		}
		fr.obligeAt(fr.cur.reach, "assert-at", "return["+labelOr(c)+"]", t, c.Src)
	}
}

// assert-at join <var> <label>: e   - checked where the branches that assign the variable meet (the phi of that
// variable outside loop headers); the variable's name denotes the merged value
func (fr *Frame) assertAtJoin(p *ssa.Phi) {
	if fr.spec == nil {
		return
	}
	for _, c := range fr.spec.Asserts {
		if c.Key != "join "+p.Comment {
			continue
		}
		fr.matched[c] = true
		env := fr.envAt(fr.block, fr.idx+1, fr.cur.st, nil)
		env.names[p.Comment] = fr.vals[p]
		t, err := env.Goal(c.Expr)
		if err != nil {
			fr.e.unsupported = append(fr.e.unsupported, fmt.Sprintf("%s: assert-at join %s:%d: %v", fr.prefix, c.File, c.Line, err))
			continue
		}
		fr.obligeAt(fr.cur.reach, "assert-at", "join("+p.Comment+")["+labelOr(c)+"]", t, c.Src)
	}
}

// assert-at send <label>: e   - checked at every channel send (plain or in a select) of the function;
// `chan` and `value` name the channel and the value sent
// assert-at mapupdate <label>: e   - checked at every `m[k] = v` of the function; `map`, `key`, `value` name the
// operands, `had` and `oldvalue` what the map held under that key just before
func (fr *Frame) assertAtMapUpdate(m, k, v, had, oldv Val) {
	for _, o := range fr.clauseFrames() {
		for _, c := range o.spec.Asserts {
			if c.Key != "mapupdate" {
				continue
			}
			o.matched[c] = true
			env := o.envAt(o.block, o.idx, fr.cur.st, nil)
			env.names["map"] = m
			env.names["key"] = k
			env.names["value"] = v
			env.names["had"] = had
			env.names["oldvalue"] = oldv
			t, err := env.Goal(c.Expr)
			if err != nil {
				fr.e.unsupported = append(fr.e.unsupported, fmt.Sprintf("%s: assert-at mapupdate %s:%d: %v", fr.prefix, c.File, c.Line, err))
				continue
			}
			fr.obligeAt(fr.cur.reach, "assert-at", "mapupdate["+labelOr(c)+"]", t, c.Src)
		}
	}
}

func (fr *Frame) assertAtSend(ch, v Val) {
	for _, o := range fr.clauseFrames() {
		fr.assertAtSendFor(o, ch, v)
	}
}

func (fr *Frame) assertAtSendFor(o *Frame, ch, v Val) {
	for _, c := range o.spec.Asserts {
		if c.Key != "send" {
			continue
		}
		o.matched[c] = true
		env := o.envAt(o.block, o.idx, fr.cur.st, nil)
		env.names["chan"] = ch
		env.names["value"] = v
		t, err := env.Goal(c.Expr)
		if err != nil {
			fr.e.unsupported = append(fr.e.unsupported, fmt.Sprintf("%s: assert-at send %s:%d: %v", fr.prefix, c.File, c.Line, err))
			continue
		}
		fr.obligeAt(fr.cur.reach, "assert-at", "send["+labelOr(c)+"]", t, c.Src)
	}
}

func labelOr(c *Clause) string {
	if c.Label != "" {
		return c.Label
	}
	return fmt.Sprintf("L%d", c.Line)
}

func (fr *Frame) bindResults(env *Env, vs []Val) {
	res := fr.fn.Signature.Results()
	for i := 0; i < res.Len() && i < len(vs); i++ {
		if n := res.At(i).Name(); n != "" && n != "_" {
			env.names[n] = vs[i]
		}
		env.names[fmt.Sprintf("result%d", i)] = vs[i]
		if i == res.Len()-1 && (res.At(i).Name() == "" || res.At(i).Name() == "_") && res.At(i).Type().String() == "error" {
			env.names["err"] = vs[i]
		}
	}
	if len(vs) > 0 {
		env.names["result"] = vs[0]
	}
}

func (fr *Frame) runDefers() {
	e := fr.e
	ds := fr.defers
	for i := len(ds) - 1; i >= 0; i-- {
		d := ds[i]
		uncond := d.block == fr.block || d.block.Dominates(fr.block)
		if uncond && d.reach == fr.entryReachOf(d) {
			fr.callCommon(d.call, d.args, d.fnVal, nil, "defer")
			continue
		}
		if uncond {
			// the defer statement dominates this exit; it ran iff its reach held, which is implied
			fr.callCommon(d.call, d.args, d.fnVal, nil, "defer")
			continue
		}
		// conditional: run under (reach && d.reach), merge with the skip path
		before := fr.cur.st.clone()
		r0 := fr.cur.reach
		rTake := e.sc.define("deferred", "Bool", sAnd(r0, d.reach))
		rSkip := e.sc.define("undeferred", "Bool", sAnd(r0, sNot(d.reach)))
		fr.cur = &Cur{rTake, fr.cur.st}
		fr.callCommon(d.call, d.args, d.fnVal, nil, "defer")
		after := fr.cur
		merged := e.merge([]edgeIn{{after.reach, after.st, nil}, {rSkip, before, nil}})
		fr.cur = &Cur{e.sc.define("afterdefer", "Bool", sOr(after.reach, rSkip)), merged}
	}
}

func (fr *Frame) entryReachOf(d *deferRec) string { return d.reach }

func (fr *Frame) value(v ssa.Value) Val {
	e := fr.e
	cur := fr.cur
	switch x := v.(type) {
	case *ssa.Alloc:
		pt := x.Type().(*types.Pointer).Elem()
		r := fr.newRef("new$" + sanitize(x.Comment))
		e.storeAt(cur.st, r, nil, pt, e.zero(pt))
		if e.nonEscaping(x) {
			comps := map[string]bool{}
			e.compsOfStore(nil, pt, comps)
			for c := range comps {
				if strings.HasPrefix(c, "C$") {
					e.localCells = append(e.localCells, localCell{c, r})
				}
			}
		}
		return Val{T: r, Ty: x.Type()}
	case *ssa.BinOp:
		return fr.binop(x)
	case *ssa.UnOp:
		return fr.unop(x)
	case *ssa.Call:
		var args []Val
		for _, a := range x.Call.Args {
			args = append(args, fr.val(a))
		}
		fv := fr.val(x.Call.Value)
		res := fr.callCommon(&x.Call, args, fv, x, "call")
		fr.noteResult(&x.Call, res)
		return res
	case *ssa.ChangeType:
		a := fr.val(x.X)
		a.Ty = x.Type()
		return a
	case *ssa.ChangeInterface:
		a := fr.val(x.X)
		a.Ty = x.Type()
		return a
	case *ssa.Convert:
		return fr.convert(x)
	case *ssa.Extract:
		t := fr.val(x.Tuple)
		if x.Index < len(t.Tuple) {
			return t.Tuple[x.Index]
		}
		return fr.freshVal("extract", x.Type())
	case *ssa.Field:
		a := fr.val(x.X)
		s, _ := isStruct(a.Ty)
		e.declStruct(a.Ty, s)
		f := s.Field(x.Field)
		return Val{T: "(" + sym(e.structKey(a.Ty)+"."+f.Name()) + " " + a.T + ")", Ty: f.Type()}
	case *ssa.FieldAddr:
		a := fr.val(x.X)
		pt := a.Ty.Underlying().(*types.Pointer).Elem()
		s, _ := isStruct(pt)
		f := s.Field(x.Field)
		key := e.structKey(pt)
		fr.nilCheck(a, "fieldaddr("+fr.srcText(x.Pos(), fr.stableName(x.X)+"."+f.Name())+")")
		fa := e.fa(key, f.Name(), a.T)
		if _, ok := isStruct(f.Type()); ok {
			return Val{T: fa, Ty: x.Type()}
		}
		if _, ok := f.Type().Underlying().(*types.Array); ok {
			return Val{T: fa, Ty: x.Type()}
		}
		return Val{T: fa, Ty: x.Type(), Src: &addrSrc{kind: "field", base: a.T, skey: key, fname: f.Name(), ftype: f.Type()}}
	case *ssa.Index:
		a := fr.val(x.X)
		i := fr.val(x.Index)
		switch u := a.Ty.Underlying().(type) {
		case *types.Array:
			if e.checks("index") {
				fr.oblige("index", fr.srcText(x.Pos(), fr.stableName(x.X)), fmt.Sprintf("(and (<= 0 %s) (< %s %d))", i.T, i.T, u.Len()))
			}
			return Val{T: "(select " + a.T + " " + i.T + ")", Ty: x.Type()}
		case *types.Basic: // string
			fr.oblige("index", fr.srcText(x.Pos(), fr.stableName(x.X)), fmt.Sprintf("(and (<= 0 %s) (< %s (slen %s)))", i.T, i.T, a.T))
			r := Val{T: "(sat " + a.T + " " + i.T + ")", Ty: x.Type()}
			fr.assumeHere(e.rangeOf(r.T, x.Type()))
			return r
		}
	case *ssa.IndexAddr:
		a := fr.val(x.X)
		i := fr.val(x.Index)
		switch u := a.Ty.Underlying().(type) {
		case *types.Slice:
			if e.checks("index") {
				fr.oblige("index", fr.srcText(x.Pos(), fr.stableName(x.X)), fmt.Sprintf("(and (<= 0 %s) (< %s (s_len %s)))", i.T, i.T, a.T))
			}
			e.noteIndexTerm(i.T)
			pos := e.sc.define("pos", "Int", "(+ (s_off "+a.T+") "+i.T+")")
			if _, ok := isStruct(u.Elem()); ok {
				return Val{T: "(ea (s_arr " + a.T + ") " + pos + ")", Ty: x.Type()}
			}
			if _, ok := u.Elem().Underlying().(*types.Array); ok {
				return Val{T: "(ea (s_arr " + a.T + ") " + pos + ")", Ty: x.Type()}
			}
			return Val{T: "(ea (s_arr " + a.T + ") " + pos + ")", Ty: x.Type(), Src: &addrSrc{kind: "elem", arr: "(s_arr " + a.T + ")", pos: pos, elem: u.Elem()}}
		case *types.Pointer:
			arr := u.Elem().Underlying().(*types.Array)
			e.noteIndexTerm(i.T)
			fr.nilCheck(a, "indexaddr("+fr.srcText(x.Pos(), fr.stableName(x.X))+")")
			if e.checks("index") {
				fr.oblige("index", fr.srcText(x.Pos(), fr.stableName(x.X)), fmt.Sprintf("(and (<= 0 %s) (< %s %d))", i.T, i.T, arr.Len()))
			}
			if _, ok := isStruct(arr.Elem()); ok {
				return Val{T: "(ea " + a.T + " " + i.T + ")", Ty: x.Type()}
			}
			return Val{T: "(ea " + a.T + " " + i.T + ")", Ty: x.Type(), Src: &addrSrc{kind: "elem", arr: a.T, pos: i.T, elem: arr.Elem()}}
		}
	case *ssa.Lookup:
		a := fr.val(x.X)
		k := fr.val(x.Index)
		if mt, ok := a.Ty.Underlying().(*types.Map); ok {
			if a.From != nil {
				fr.lockCheck(Val{Src: a.From}, false) // reading the contents of a guarded map
			}
			if e.sortOf(mt.Key()) == "Int" {
				e.noteIndexTerm(k.T)
			}
			dom, val := e.mapComps(mt)
			has := fmt.Sprintf("(select (select %s %s) %s)", e.get(cur.st, dom), a.T, k.T)
			has = sAnd("(not (= "+a.T+" 0))", has)
			has = e.sc.define("has", "Bool", has)
			raw := fmt.Sprintf("(select (select %s %s) %s)", e.get(cur.st, val), a.T, k.T)
			vt := mt.Elem()
			valT := e.sc.define("mapval", e.sortOf(vt), sIte(has, raw, e.zero(vt)))
			if r := e.rangeOf(valT, vt); r != "" {
				e.sc.assert(r)
			}
			rv := Val{T: valT, Ty: vt}
			fr.boundRef(rv)
			if x.CommaOk {
				return Val{Tuple: []Val{rv, {T: has, Ty: types.Typ[types.Bool]}}, Ty: x.Type()}
			}
			return rv
		}
		// string index
		fr.oblige("index", fr.srcText(x.Pos(), fr.stableName(x.X)), fmt.Sprintf("(and (<= 0 %s) (< %s (slen %s)))", k.T, k.T, a.T))
		r := Val{T: "(sat " + a.T + " " + k.T + ")", Ty: x.Type()}
		fr.assumeHere(e.rangeOf(r.T, x.Type()))
		return r
	case *ssa.MakeClosure:
		var bs []Val
		for _, b := range x.Bindings {
			bs = append(bs, fr.val(b))
		}
		fn := x.Fn.(*ssa.Function)
		r := fr.newRef("closure")
		return Val{T: r, Ty: x.Type(), Clo: &Closure{Fn: fn, Bindings: bs}}
	case *ssa.MakeInterface:
		a := fr.val(x.X)
		if a.Ty == nil {
			a.Ty = x.X.Type()
		}
		inner := a
		return Val{T: e.box(x.X.Type(), a.T), Ty: x.Type(), Boxed: &inner}
	case *ssa.MakeMap:
		r := fr.newRef("map")
		mt := x.Type().Underlying().(*types.Map)
		dom, _ := e.mapComps(mt)
		d := e.get(cur.st, dom)
		e.set(cur.st, dom, "(store "+d+" "+r+" ((as const (Array "+e.sortOf(mt.Key())+" Bool)) false))")
		return Val{T: r, Ty: x.Type()}
	case *ssa.MakeChan:
		r := fr.newRef("chan")
		// a new channel is open
		closed := e.comp("ghost$closed", "(Array Int Bool)")
		e.set(cur.st, closed, "(store "+e.get(cur.st, closed)+" "+r+" false)")
		return Val{T: r, Ty: x.Type()}
	case *ssa.MakeSlice:
		l := fr.val(x.Len)
		c := fr.val(x.Cap)
		fr.oblige("makeslice", fr.srcText(x.Pos(), "make"), fmt.Sprintf("(and (<= 0 %s) (<= %s %s) (<= %s %s))", l.T, l.T, c.T, c.T, two48))
		r := fr.newRef("arr")
		et := x.Type().Underlying().(*types.Slice).Elem()
		if _, ok := isStruct(et); !ok {
			if _, ok := et.Underlying().(*types.Array); !ok {
				ec := e.elemComp(et)
				e.set(cur.st, ec, "(store "+e.get(cur.st, ec)+" "+r+" ((as const (Array Int "+e.sortOf(et)+")) "+e.zero(et)+"))")
			}
		}
		if _, isS := isStruct(et); !isS && e.sliceStaysLocal(x) {
			if _, isA := et.Underlying().(*types.Array); !isA {
				e.localCells = append(e.localCells, localCell{e.elemComp(et), r})
			}
		}
		return Val{T: "(mk_slice " + r + " 0 " + l.T + " " + c.T + ")", Ty: x.Type()}
	case *ssa.Slice:
		return fr.sliceOp(x)
	case *ssa.TypeAssert:
		return fr.typeAssert(x)
	case *ssa.Range:
		a := fr.val(x.X)
		if mt, ok := x.X.Type().Underlying().(*types.Map); ok {
			// ghost set of keys already yielded by this iteration
			e.sc.n++
			c := e.comp(fmt.Sprintf("ghost$iter$%d", e.sc.n), "(Array "+e.sortOf(mt.Key())+" Bool)")
			e.set(cur.st, c, "((as const (Array "+e.sortOf(mt.Key())+" Bool)) false)")
			fr.iters[x] = c
			fr.lastIter = c
		}
		return Val{T: a.T, Ty: x.X.Type(), From: a.From}
	case *ssa.Next:
		it := fr.val(x.Iter)
		if it.From != nil {
			fr.lockCheck(Val{Src: it.From}, false) // iterating a guarded map
		}
		ok := e.sc.fresh("next.ok", "Bool")
		tup := x.Type().(*types.Tuple)
		if x.IsString {
			k := fr.freshVal("next.k", tup.At(1).Type())
			vv := fr.freshVal("next.v", tup.At(2).Type())
			e.sc.assert(sImp(ok, "(and (<= 0 "+k.T+") (< "+k.T+" (slen "+it.T+")))"))
			return Val{Tuple: []Val{{T: ok, Ty: types.Typ[types.Bool]}, k, vv}, Ty: x.Type()}
		}
		mt := it.Ty.Underlying().(*types.Map)
		dom, val := e.mapComps(mt)
		k := fr.freshVal("next.k", mt.Key())
		e.sc.assert(sImp(ok, fmt.Sprintf("(and (not (= %s 0)) (select (select %s %s) %s))", it.T, e.get(cur.st, dom), it.T, k.T)))
		if rg, isR := x.Iter.(*ssa.Range); isR {
			if c, has := fr.iters[rg]; has {
				vis := e.get(cur.st, c)
				ks := e.sortOf(mt.Key())
				// the yielded key is new; when the iteration ends every key of the map has been yielded
				fr.assumeHere(sImp(ok, "(not (select "+vis+" "+k.T+"))"))
				fr.assumeHere(sImp(sNot(ok), fmt.Sprintf("(forall ((kk %s)) (! (=> (select (select %s %s) kk) (select %s kk)) :pattern ((select %s kk))))", ks, e.get(cur.st, dom), it.T, vis, vis)))
				e.set(cur.st, c, sIte(ok, "(store "+vis+" "+k.T+" true)", vis))
				fr.lastIter = c
			}
		}
		vt := e.sc.define("next.v", e.sortOf(mt.Elem()), fmt.Sprintf("(select (select %s %s) %s)", e.get(cur.st, val), it.T, k.T))
		if r := e.rangeOf(vt, mt.Elem()); r != "" {
			e.sc.assert(r)
		}
		vv := Val{T: vt, Ty: mt.Elem()}
		fr.boundRef(vv)
		return Val{Tuple: []Val{{T: ok, Ty: types.Typ[types.Bool]}, k, vv}, Ty: x.Type()}
	case *ssa.Select:
		if fr.spec != nil && fr.spec.Attrs["blocking-select"] {
			// `attr blocking-select`: every select of the function waits for one of its cases (no default branch that
			// would let it fall through without having sent or received)
			fr.oblige("select", "blocking", boolSMT(x.Blocking))
		}
		for _, st := range x.States {
			if st.Dir == types.SendOnly && st.Send != nil {
				fr.assertAtSend(fr.val(st.Chan), fr.val(st.Send))
			}
		}
		e.assume("select statements choose nondeterministically; received values are arbitrary (" + fr.prefix + ")")
		return fr.freshVal("select", x.Type())
	case *ssa.SliceToArrayPointer, *ssa.MultiConvert:
		e.unsupported = append(e.unsupported, fmt.Sprintf("%s: instruction %T", fr.prefix, v))
	}
	return fr.freshVal("unk$"+v.Name(), v.Type())
}

func (fr *Frame) sliceOp(x *ssa.Slice) Val {
	e := fr.e
	a := fr.val(x.X)
	lo := "0"
	if x.Low != nil {
		lo = fr.val(x.Low).T
	}
	switch u := a.Ty.Underlying().(type) {
	case *types.Slice:
		hi := "(s_len " + a.T + ")"
		if x.High != nil {
			hi = fr.val(x.High).T
		}
		max := "(s_cap " + a.T + ")"
		if x.Max != nil {
			max = fr.val(x.Max).T
			fr.oblige("slice", fr.srcText(x.Pos(), fr.stableName(x.X)), fmt.Sprintf("(and (<= 0 %s) (<= %s %s) (<= %s %s) (<= %s (s_cap %s)))", lo, lo, hi, hi, max, max, a.T))
		} else {
			fr.oblige("slice", fr.srcText(x.Pos(), fr.stableName(x.X)), fmt.Sprintf("(and (<= 0 %s) (<= %s %s) (<= %s (s_cap %s)))", lo, lo, hi, hi, a.T))
		}
		t := fmt.Sprintf("(mk_slice (s_arr %[1]s) (+ (s_off %[1]s) %[2]s) (- %[3]s %[2]s) (- %[4]s %[2]s))", a.T, lo, hi, max)
		return Val{T: e.sc.define("slice", "Slice", t), Ty: x.Type()}
	case *types.Basic: // string
		hi := "(slen " + a.T + ")"
		if x.High != nil {
			hi = fr.val(x.High).T
		}
		fr.oblige("slice", fr.srcText(x.Pos(), fr.stableName(x.X)), fmt.Sprintf("(and (<= 0 %s) (<= %s %s) (<= %s (slen %s)))", lo, lo, hi, hi, a.T))
		sub := e.sc.declFun("substr", []string{"Int", "Int", "Int"}, "Int")
		r := e.sc.define("substr", "Int", fmt.Sprintf("(%s %s %s %s)", sub, a.T, lo, hi))
		fr.assumeHere(fmt.Sprintf("(= (slen %s) (- %s %s))", r, hi, lo))
		fr.assumeHere(fmt.Sprintf("(forall ((i Int)) (! (=> (and (<= 0 i) (< i (- %s %s))) (= (sat %s i) (sat %s (+ %s i)))) :pattern ((sat %s i))))", hi, lo, r, a.T, lo, r))
		return Val{T: r, Ty: x.Type()}
	case *types.Pointer:
		arr := u.Elem().Underlying().(*types.Array)
		fr.nilCheck(a, "slice("+fr.srcText(x.Pos(), fr.stableName(x.X))+")")
		n := fmt.Sprint(arr.Len())
		hi := n
		if x.High != nil {
			hi = fr.val(x.High).T
		}
		max := n
		if x.Max != nil {
			max = fr.val(x.Max).T
		}
		fr.oblige("slice", fr.srcText(x.Pos(), fr.stableName(x.X)), fmt.Sprintf("(and (<= 0 %s) (<= %s %s) (<= %s %s) (<= %s %s))", lo, lo, hi, hi, max, max, n))
		t := fmt.Sprintf("(mk_slice %s %s (- %s %s) (- %s %s))", a.T, lo, hi, lo, max, lo)
		return Val{T: e.sc.define("slice", "Slice", t), Ty: x.Type()}
	}
	return fr.freshVal("slice", x.Type())
}

func (fr *Frame) typeAssert(x *ssa.TypeAssert) Val {
	e := fr.e
	a := fr.val(x.X)
	boolT := types.Typ[types.Bool]
	if _, isIface := x.AssertedType.Underlying().(*types.Interface); isIface {
		ok := e.sc.fresh("ta.ok", "Bool")
		e.sc.assert(sImp(ok, "(not (= "+a.T+" 0))"))
		if x.CommaOk {
			return Val{Tuple: []Val{{T: sIte(ok, a.T, "0"), Ty: x.AssertedType}, {T: ok, Ty: boolT}}, Ty: x.Type()}
		}
		fr.oblige("typeassert", fr.srcText(x.Pos(), fr.stableName(x.X)), ok)
		return Val{T: a.T, Ty: x.AssertedType}
	}
	ok := e.sc.define("ta.ok", "Bool", fmt.Sprintf("(and (not (= %s 0)) (= (dyntype %s) %d))", a.T, a.T, e.typeID(x.AssertedType)))
	val := "(" + e.unboxFun(x.AssertedType) + " " + a.T + ")"
	if x.CommaOk {
		v := e.sc.define("ta.v", e.sortOf(x.AssertedType), sIte(ok, val, e.zero(x.AssertedType)))
		return Val{Tuple: []Val{{T: v, Ty: x.AssertedType}, {T: ok, Ty: boolT}}, Ty: x.Type()}
	}
	fr.oblige("typeassert", fr.srcText(x.Pos(), fr.stableName(x.X)), ok)
	return Val{T: val, Ty: x.AssertedType}
}

func (fr *Frame) binop(x *ssa.BinOp) Val {
	e := fr.e
	a := fr.val(x.X)
	b := fr.val(x.Y)
	t := x.Type()
	boolT := types.Typ[types.Bool]
	opT := x.X.Type()
	switch x.Op {
	case token.EQL, token.NEQ:
		var r string
		srt := e.sortOf(opT)
		switch {
		case srt == "Slice":
			// only comparison with nil is legal
			if b.T == "nilslice" || b.T == "0" {
				r = "(= (s_arr " + a.T + ") 0)"
			} else {
				r = "(= (s_arr " + b.T + ") 0)"
			}
		case isStr(opT):
			r = e.strEq(a.T, b.T)
		default:
			r = sEq(a.T, b.T)
		}
		if x.Op == token.NEQ {
			r = sNot(r)
		}
		return Val{T: r, Ty: boolT}
	case token.LSS, token.LEQ, token.GTR, token.GEQ:
		op := map[token.Token]string{token.LSS: "<", token.LEQ: "<=", token.GTR: ">", token.GEQ: ">="}[x.Op]
		if isStr(opT) {
			f := e.sc.declFun("strcmp", []string{"Int", "Int"}, "Int")
			return Val{T: "(" + op + " (" + f + " " + a.T + " " + b.T + ") 0)", Ty: boolT}
		}
		if !isInt(opT) {
			// floats are opaque values; the order is an uninterpreted relation of the two operands (so that a
			// contract can name the outcome of a comparison), nothing else is known about it
			lt := e.sc.declFun("flt", []string{"Int", "Int"}, "Bool")
			le := e.sc.declFun("fle", []string{"Int", "Int"}, "Bool")
			switch x.Op {
			case token.LSS:
				return Val{T: "(" + lt + " " + a.T + " " + b.T + ")", Ty: boolT}
			case token.GTR:
				return Val{T: "(" + lt + " " + b.T + " " + a.T + ")", Ty: boolT}
			case token.LEQ:
				return Val{T: "(" + le + " " + a.T + " " + b.T + ")", Ty: boolT}
			default:
				return Val{T: "(" + le + " " + b.T + " " + a.T + ")", Ty: boolT}
			}
		}
		return Val{T: "(" + op + " " + a.T + " " + b.T + ")", Ty: boolT}
	}
	if isStr(t) && x.Op == token.ADD {
		f := e.sc.declFun("sconcat", []string{"Int", "Int"}, "Int")
		r := e.sc.define("concat", "Int", "("+f+" "+a.T+" "+b.T+")")
		e.sc.assert(fmt.Sprintf("(= (slen %s) (+ (slen %s) (slen %s)))", r, a.T, b.T))
		e.sc.assert(fmt.Sprintf("(forall ((i Int)) (! (=> (and (<= 0 i) (< i (slen %s))) (= (sat %s i) (sat %s i))) :pattern ((sat %s i))))", a.T, r, a.T, r))
		e.sc.assert(fmt.Sprintf("(forall ((i Int)) (! (=> (and (<= 0 i) (< i (slen %s))) (= (sat %s (+ (slen %s) i)) (sat %s i))) :pattern ((sat %s i))))", b.T, r, a.T, b.T, b.T))
		return Val{T: r, Ty: t}
	}
	if isBoolT(t) {
		switch x.Op {
		case token.AND, token.LAND:
			return Val{T: sAnd(a.T, b.T), Ty: t}
		case token.OR, token.LOR:
			return Val{T: sOr(a.T, b.T), Ty: t}
		case token.XOR:
			return Val{T: "(xor " + a.T + " " + b.T + ")", Ty: t}
		}
	}
	if !isInt(t) {
		return fr.freshVal("fop", t)
	}
	bits, signed, _ := intBits(t)
	var r string
	needRange := false
	switch x.Op {
	case token.ADD:
		r = "(+ " + a.T + " " + b.T + ")"
		needRange = true
	case token.SUB:
		r = "(- " + a.T + " " + b.T + ")"
		needRange = true
	case token.MUL:
		r = "(* " + a.T + " " + b.T + ")"
		needRange = true
	case token.QUO:
		fr.oblige("div0", fr.srcText(x.Pos(), x.Y.Name()), "(not (= "+b.T+" 0))")
		if signed {
			r = "(tdiv " + a.T + " " + b.T + ")"
		} else {
			r = "(div " + a.T + " " + b.T + ")"
		}
	case token.REM:
		fr.oblige("div0", fr.srcText(x.Pos(), x.Y.Name()), "(not (= "+b.T+" 0))")
		if signed {
			r = "(tmod " + a.T + " " + b.T + ")"
		} else {
			r = "(mod " + a.T + " " + b.T + ")"
		}
	case token.SHL:
		if k, ok := constInt(x.Y); ok {
			r = "(* " + a.T + " " + pow2str(int(k)) + ")"
		} else {
			r = "(* " + a.T + " (pow2 " + b.T + "))"
		}
		if signed {
			needRange = true
		} else {
			r = "(mod " + r + " " + pow2str(bits) + ")"
		}
	case token.SHR:
		if k, ok := constInt(x.Y); ok {
			r = "(div " + a.T + " " + pow2str(int(k)) + ")"
		} else {
			r = "(ite (>= " + b.T + " 64) (ite (>= " + a.T + " 0) 0 (- 1)) (div " + a.T + " (pow2 " + b.T + ")))"
		}
	case token.AND:
		if k, ok := constInt(x.Y); ok && isMask(k) && !signed {
			r = "(mod " + a.T + " " + fmt.Sprint(k+1) + ")"
		} else if k, ok := constInt(x.X); ok && isMask(k) && !signed {
			r = "(mod " + b.T + " " + fmt.Sprint(k+1) + ")"
		} else {
			r = "(band " + a.T + " " + b.T + ")"
			fr.assumeHere(fmt.Sprintf("(=> (and (>= %[1]s 0) (>= %[2]s 0)) (and (>= %[3]s 0) (<= %[3]s %[1]s) (<= %[3]s %[2]s)))", a.T, b.T, r))
			fr.assumeHere(e.rangeOf(r, t))
		}
	case token.OR:
		r = "(bor " + a.T + " " + b.T + ")"
		fr.assumeHere(fmt.Sprintf("(=> (and (>= %[1]s 0) (>= %[2]s 0)) (and (>= %[3]s %[1]s) (>= %[3]s %[2]s) (<= %[3]s (+ %[1]s %[2]s))))", a.T, b.T, r))
		fr.assumeHere(e.rangeOf(r, t))
	case token.XOR:
		r = "(bxor " + a.T + " " + b.T + ")"
		fr.assumeHere(fmt.Sprintf("(=> (and (>= %[1]s 0) (>= %[2]s 0)) (and (>= %[3]s 0) (<= %[3]s (+ %[1]s %[2]s))))", a.T, b.T, r))
		fr.assumeHere(e.rangeOf(r, t))
	case token.AND_NOT:
		f := e.sc.declFun("bandnot", []string{"Int", "Int"}, "Int")
		r = "(" + f + " " + a.T + " " + b.T + ")"
		fr.assumeHere(fmt.Sprintf("(=> (and (>= %[1]s 0) (>= %[2]s 0)) (and (>= %[3]s 0) (<= %[3]s %[1]s)))", a.T, b.T, r))
		fr.assumeHere(e.rangeOf(r, t))
	default:
		return fr.freshVal("op", t)
	}
	r = e.sc.define(x.Name(), "Int", r)
	if needRange {
		txt := fr.srcText(x.Pos(), x.Op.String()+"("+x.Name()+")")
		if fr.wrapsAt(txt) {
			// declared wrap-around site: modular semantics, no obligation
			if signed {
				h := pow2str(bits - 1)
				r = e.sc.define(x.Name()+"w", "Int", "(- (mod (+ "+r+" "+h+") "+pow2str(bits)+") "+h+")")
			} else {
				r = e.sc.define(x.Name()+"w", "Int", "(mod "+r+" "+pow2str(bits)+")")
			}
			e.assume("wrap-around declared harmless at `" + txt + "` in " + fr.prefix)
		} else if e.checks("overflow") {
			fr.oblige("overflow", txt, e.rangeOf(r, t))
		} else {
			fr.assumeHere(e.rangeOf(r, t))
		}
	}
	return Val{T: r, Ty: t}
}

func isMask(k int64) bool { return k > 0 && (k&(k+1)) == 0 }

func constInt(v ssa.Value) (int64, bool) {
	c, ok := v.(*ssa.Const)
	if !ok || c.Value == nil {
		return 0, false
	}
	if !isInt(c.Type()) {
		return 0, false
	}
	if u := c.Uint64(); u <= 1<<62 {
		return int64(u), true
	}
	return 0, false
}

func (fr *Frame) unop(x *ssa.UnOp) Val {
	e := fr.e
	a := fr.val(x.X)
	switch x.Op {
	case token.NOT:
		return Val{T: sNot(a.T), Ty: x.Type()}
	case token.SUB:
		if !isInt(x.Type()) {
			return fr.freshVal("fneg", x.Type())
		}
		r := "(- " + a.T + ")"
		if _, signed, _ := intBits(x.Type()); signed {
			if e.checks("overflow") {
				fr.oblige("overflow", "neg("+fr.srcText(x.Pos(), "x")+")", e.rangeOf(r, x.Type()))
			}
		} else {
			bits, _, _ := intBits(x.Type())
			r = "(mod " + r + " " + pow2str(bits) + ")"
		}
		return Val{T: r, Ty: x.Type()}
	case token.XOR:
		bits, signed, _ := intBits(x.Type())
		if signed {
			return Val{T: "(- (- " + a.T + ") 1)", Ty: x.Type()}
		}
		return Val{T: "(- " + pow2str(bits) + " 1 " + a.T + ")", Ty: x.Type()}
	case token.MUL:
		pt := a.Ty.Underlying().(*types.Pointer).Elem()
		if a.Src == nil {
			fr.nilCheck(a, "load("+fr.srcText(x.Pos(), "*"+fr.stableName(x.X))+")")
		}
		fr.lockCheck(a, false)
		if a.Src != nil && a.Src.kind == "global" {
			if g, ok := x.X.(*ssa.Global); ok {
				if o, ok := g.Object().(*types.Var); ok {
					if t, ok := e.errGlobalTerm(o); ok {
						return Val{T: t, Ty: pt}
					}
				}
			}
		}
		t := e.loadAt(fr.cur.st, a.T, a.Src, pt)
		t = e.sc.define("ld", e.sortOf(pt), t)
		if r := e.rangeOf(t, pt); r != "" {
			e.sc.assert(r)
		}
		v := Val{T: t, Ty: pt}
		if a.Src != nil && a.Src.kind == "field" {
			v.From = a.Src
		}
		fr.boundRef(v)
		return v
	case token.ARROW:
		e.assume("channel receives yield arbitrary values (" + fr.prefix + ")")
		return fr.freshVal("recv", x.Type())
	}
	return fr.freshVal("unop", x.Type())
}

func (fr *Frame) convert(x *ssa.Convert) Val {
	e := fr.e
	a := fr.val(x.X)
	from := x.X.Type()
	to := x.Type()
	if isInt(from) && isInt(to) {
		flo, fhi, fok := intRange(from)
		tb, tsigned, _ := intBits(to)
		_ = flo
		_ = fhi
		if fok {
			fb, fsigned, _ := intBits(from)
			if fsigned == tsigned && fb <= tb || !fsigned && tsigned && fb < tb {
				return Val{T: a.T, Ty: to}
			}
		}
		if _, ok := x.X.(*ssa.Const); ok && !fok {
			return Val{T: a.T, Ty: to}
		}
		var r string
		if !tsigned {
			r = "(mod " + a.T + " " + pow2str(tb) + ")"
		} else {
			h := pow2str(tb - 1)
			r = "(- (mod (+ " + a.T + " " + h + ") " + pow2str(tb) + ") " + h + ")"
		}
		if e.topSpec != nil && e.topSpec.Attrs["checkconv"] || fr.spec != nil && fr.spec.Attrs["checkconv"] {
			fr.oblige("conv", fr.srcText(x.Pos(), fr.stableName(x.X)), e.rangeOf(a.T, to))
		}
		return Val{T: e.sc.define(x.Name(), "Int", r), Ty: to}
	}
	if isStr(to) {
		if sl, ok := from.Underlying().(*types.Slice); ok {
			// string(bytes)
			ec := e.elemComp(sl.Elem())
			r := e.sc.fresh("str", "Int")
			e.sc.assert("(= (slen " + r + ") (s_len " + a.T + "))")
			fr.assumeHere(fmt.Sprintf("(forall ((i Int)) (! (=> (and (<= 0 i) (< i (s_len %[1]s))) (= (sat %[2]s i) (select (select %[3]s (s_arr %[1]s)) (+ (s_off %[1]s) i)))) :pattern ((sat %[2]s i))))", a.T, r, e.get(fr.cur.st, ec)))
			return Val{T: r, Ty: to}
		}
		return fr.freshVal("str", to)
	}
	if sl, ok := to.Underlying().(*types.Slice); ok && isStr(from) {
		arr := fr.newRef("arr")
		ec := e.elemComp(sl.Elem())
		na := e.sc.fresh("bytes", "(Array Int Int)")
		fr.assumeHere(fmt.Sprintf("(forall ((i Int)) (! (=> (and (<= 0 i) (< i (slen %[1]s))) (= (select %[2]s i) (sat %[1]s i))) :pattern ((select %[2]s i))))", a.T, na))
		fr.assumeHere(fmt.Sprintf("(forall ((i Int)) (! (and (<= 0 (select %[1]s i)) (<= (select %[1]s i) 255)) :pattern ((select %[1]s i))))", na))
		e.set(fr.cur.st, ec, "(store "+e.get(fr.cur.st, ec)+" "+arr+" "+na+")")
		return Val{T: fmt.Sprintf("(mk_slice %s 0 (slen %s) (slen %s))", arr, a.T, a.T), Ty: to}
	}
	if e.sortOf(from) == e.sortOf(to) && !isInt(to) && !isInt(from) {
		_, f1 := from.Underlying().(*types.Basic)
		_, f2 := to.Underlying().(*types.Basic)
		if !(f1 && f2) {
			return Val{T: a.T, Ty: to}
		}
	}
	return fr.freshVal("conv", to)
}

// ------------------------------------------------------------------ source expression text for obligation names

func (fr *Frame) srcText(pos token.Pos, fallback string) string {
	if !pos.IsValid() {
		return fallback
	}
	if fr.srcMap == nil {
		fr.srcMap = map[token.Pos]string{}
		root := fr.fn
		var syn ast.Node = root.Syntax()
		if syn != nil {
			ast.Inspect(syn, func(n ast.Node) bool {
				switch x := n.(type) {
				case *ast.BinaryExpr:
					fr.srcMap[x.OpPos] = exprText(x)
				case *ast.IndexExpr:
					fr.srcMap[x.Lbrack] = exprText(x)
					if _, ok := fr.srcMap[x.Pos()]; !ok {
						fr.srcMap[x.Pos()] = exprText(x)
					}
				case *ast.SliceExpr:
					fr.srcMap[x.Lbrack] = exprText(x)
					if _, ok := fr.srcMap[x.Pos()]; !ok {
						fr.srcMap[x.Pos()] = exprText(x)
					}
				case *ast.SelectorExpr:
					fr.srcMap[x.Sel.Pos()] = exprText(x)
				case *ast.StarExpr:
					fr.srcMap[x.Star] = exprText(x)
				case *ast.UnaryExpr:
					fr.srcMap[x.OpPos] = exprText(x)
				case *ast.CallExpr:
					fr.srcMap[x.Lparen] = exprText(x.Fun) + "()"
				case *ast.IncDecStmt:
					fr.srcMap[x.TokPos] = exprText(x.X) + x.Tok.String()
				case *ast.AssignStmt:
					if x.Tok != token.ASSIGN && x.Tok != token.DEFINE && len(x.Lhs) == 1 && len(x.Rhs) == 1 {
						fr.srcMap[x.TokPos] = exprText(x.Lhs[0]) + x.Tok.String() + exprText(x.Rhs[0])
					}
				}
				return true
			})
		}
	}
	if t, ok := fr.srcMap[pos]; ok {
		return t
	}
	return fallback
}

func exprText(x ast.Expr) string {
	switch v := x.(type) {
	case *ast.Ident:
		return v.Name
	case *ast.SelectorExpr:
		return exprText(v.X) + "." + v.Sel.Name
	case *ast.BinaryExpr:
		return exprText(v.X) + v.Op.String() + exprText(v.Y)
	case *ast.BasicLit:
		return v.Value
	case *ast.CallExpr:
		var as []string
		for _, a := range v.Args {
			as = append(as, exprText(a))
		}
		return exprText(v.Fun) + "(" + strings.Join(as, ",") + ")"
	case *ast.ParenExpr:
		return "(" + exprText(v.X) + ")"
	case *ast.IndexExpr:
		return exprText(v.X) + "[" + exprText(v.Index) + "]"
	case *ast.SliceExpr:
		lo, hi := "", ""
		if v.Low != nil {
			lo = exprText(v.Low)
		}
		if v.High != nil {
			hi = exprText(v.High)
		}
		return exprText(v.X) + "[" + lo + ":" + hi + "]"
	case *ast.StarExpr:
		return "*" + exprText(v.X)
	case *ast.UnaryExpr:
		return v.Op.String() + exprText(v.X)
	case *ast.ArrayType:
		return "[]" + exprText(v.Elt)
	case *ast.CompositeLit:
		return exprText(v.Type) + "{}"
	case *ast.TypeAssertExpr:
		return exprText(v.X) + ".(type)"
	case *ast.FuncLit:
		return "func"
	case nil:
		return ""
	}
	return "?"
}

func (fr *Frame) wrapsAt(txt string) bool {
	if fr.spec == nil {
		return false
	}
	return fr.spec.Attrs["wraps "+txt] || fr.spec.Attrs["wraps"]
}

func (fr *Frame) stableName(v ssa.Value) string {
	switch x := v.(type) {
	case *ssa.Parameter:
		return x.Name()
	case *ssa.FreeVar:
		return x.Name()
	case *ssa.Global:
		return x.Name()
	case *ssa.Alloc:
		if x.Comment != "" {
			return x.Comment
		}
	case *ssa.Phi:
		if x.Comment != "" {
			return x.Comment
		}
	}
	return "expr"
}

type localCell struct{ comp, ref string }

// an Alloc is non-escaping if its address is only loaded from / stored to here and in closures that are
// themselves only called directly or handed to functions the engine inlines
func (e *Engine) nonEscaping(a *ssa.Alloc) bool {
	if v, ok := e.escMemo[a]; ok {
		return v
	}
	if e.escMemo == nil {
		e.escMemo = map[ssa.Value]bool{}
	}
	e.escMemo[a] = false
	ok := e.addrUsesLocal(a, 0)
	e.escMemo[a] = ok
	return ok
}

func (e *Engine) addrUsesLocal(v ssa.Value, depth int) bool {
	if depth > 4 {
		return false
	}
	refs := v.Referrers()
	if refs == nil {
		return false
	}
	for _, r := range *refs {
		switch x := r.(type) {
		case *ssa.DebugRef:
		case *ssa.UnOp:
			if x.X != v {
				return false
			}
		case *ssa.Store:
			if x.Addr != v || x.Val == v {
				return false
			}
		case *ssa.MakeClosure:
			fn := x.Fn.(*ssa.Function)
			// the matching free variable must be used locally inside the closure
			for i, b := range x.Bindings {
				if b == v {
					if i >= len(fn.FreeVars) || !e.addrUsesLocal(fn.FreeVars[i], depth+1) {
						return false
					}
				}
			}
			if !e.closureStaysLocal(x) {
				return false
			}
		default:
			return false
		}
	}
	return true
}

// the closure value is only called, deferred, or passed to a function that is inlined
func (e *Engine) closureStaysLocal(mc *ssa.MakeClosure) bool {
	refs := mc.Referrers()
	if refs == nil {
		return true
	}
	for _, r := range *refs {
		switch x := r.(type) {
		case *ssa.DebugRef:
		case ssa.CallInstruction:
			if _, isGo := x.(*ssa.Go); isGo {
				return false
			}
			cc := x.Common()
			if cc.Value == ssa.Value(mc) {
				continue // direct call / defer
			}
			callee := cc.StaticCallee()
			if callee == nil {
				return false
			}
			sp := e.specs.Funcs[callee.String()]
			if sp == nil || !sp.Attrs["inline"] {
				return false
			}
		case *ssa.Store:
			// the closure is kept in a local variable (captured by another closure): fine if that variable is only
			// ever loaded to be called
			if x.Val != ssa.Value(mc) {
				return false
			}
			if !e.funcCellOnlyCalled(x.Addr, 0) {
				return false
			}
		default:
			return false
		}
	}
	return true
}

// a cell holding a function value whose every load is used only as the target of a call
func (e *Engine) funcCellOnlyCalled(addr ssa.Value, depth int) bool {
	if depth > 3 {
		return false
	}
	switch addr.(type) {
	case *ssa.Alloc, *ssa.FreeVar:
	default:
		return false
	}
	refs := addr.Referrers()
	if refs == nil {
		return false
	}
	for _, r := range *refs {
		switch x := r.(type) {
		case *ssa.DebugRef:
		case *ssa.Store:
			if x.Addr != addr {
				return false
			}
		case *ssa.UnOp:
			lr := x.Referrers()
			if lr == nil {
				return false
			}
			for _, u := range *lr {
				switch y := u.(type) {
				case *ssa.DebugRef:
				case ssa.CallInstruction:
					if _, isGo := y.(*ssa.Go); isGo || y.Common().Value != ssa.Value(x) {
						return false
					}
				default:
					return false
				}
			}
		case *ssa.MakeClosure:
			fn := x.Fn.(*ssa.Function)
			for i, b := range x.Bindings {
				if b == addr {
					if i >= len(fn.FreeVars) || !e.funcCellOnlyCalled(fn.FreeVars[i], depth+1) {
						return false
					}
				}
			}
		default:
			return false
		}
	}
	return true
}

// faRoot strips applications of fa$... functions: (fa$T$f (fa$U$g x)) -> x
func faRoot(t string) string {
	for {
		if !(strings.HasPrefix(t, "(|fa$") || strings.HasPrefix(t, "(fa$")) || !strings.HasSuffix(t, ")") {
			return t
		}
		// function symbol ends at the first space after an optional |...| quote
		i := 1
		if t[1] == '|' {
			j := strings.Index(t[2:], "|")
			if j < 0 {
				return t
			}
			i = 2 + j + 1
		} else {
			j := strings.Index(t, " ")
			if j < 0 {
				return t
			}
			i = j
		}
		if i >= len(t) || t[i] != ' ' {
			return t
		}
		t = t[i+1 : len(t)-1]
	}
}

// a slice value that never leaves this function: only indexed (elements loaded / stored), measured or ranged over
func (e *Engine) sliceStaysLocal(v ssa.Value) bool {
	if ok, seen := e.escMemo[v]; seen {
		return ok
	}
	if e.escMemo == nil {
		e.escMemo = map[ssa.Value]bool{}
	}
	e.escMemo[v] = false
	refs := v.Referrers()
	if refs == nil {
		return false
	}
	for _, r := range *refs {
		switch x := r.(type) {
		case *ssa.DebugRef:
		case *ssa.IndexAddr:
			if x.X != v {
				return false
			}
			ir := x.Referrers()
			if ir == nil {
				return false
			}
			for _, u := range *ir {
				switch y := u.(type) {
				case *ssa.UnOp:
				case *ssa.Store:
					if y.Addr != ssa.Value(x) {
						return false
					}
				case *ssa.DebugRef:
				default:
					return false
				}
			}
		case *ssa.Call:
			b, ok := x.Call.Value.(*ssa.Builtin)
			if !ok || (b.Name() != "len" && b.Name() != "cap") {
				return false
			}
		case *ssa.Range:
		default:
			return false
		}
	}
	e.escMemo[v] = true
	return true
}

// 1-based ordinal of the current Return instruction among the function's returns, in source order
// (negative numbers count from the end: return#-1 is the last return statement)
func (fr *Frame) returnOrdinal() int {
	o, _ := fr.returnOrdinal2()
	return o
}

// ordinal of the current return and the number of source-level return statements (the synthetic return of a
// recover block has no position and is not counted)
func (fr *Frame) returnOrdinal2() (int, int) {
	if fr.block == nil || fr.idx < 0 {
		return 0, 0
	}
	cur := fr.block.Instrs[fr.idx]
	type rp struct {
		in  ssa.Instruction
		pos token.Pos
		seq int
	}
	var all []rp
	seq := 0
	for _, b := range fr.fn.Blocks {
		if b == fr.fn.Recover {
			continue
		}
		for _, in := range b.Instrs {
			if _, ok := in.(*ssa.Return); ok {
				seq++
				all = append(all, rp{in, in.Pos(), seq})
			}
		}
	}
	sort.SliceStable(all, func(i, j int) bool {
		if all[i].pos != all[j].pos {
			return all[i].pos < all[j].pos
		}
		return all[i].seq < all[j].seq
	})
	for i, r := range all {
		if r.in == cur {
			return i + 1, len(all)
		}
	}
	return 0, len(all)
}

func (fr *Frame) returnOrdinalOld() int {
	if fr.block == nil || fr.idx < 0 {
		return 0
	}
	cur := fr.block.Instrs[fr.idx]
	type rp struct {
		in  ssa.Instruction
		pos token.Pos
		seq int
	}
	var all []rp
	seq := 0
	for _, b := range fr.fn.Blocks {
		for _, in := range b.Instrs {
			if _, ok := in.(*ssa.Return); ok {
				seq++
				all = append(all, rp{in, in.Pos(), seq})
			}
		}
	}
	sort.SliceStable(all, func(i, j int) bool {
		if all[i].pos != all[j].pos {
			return all[i].pos < all[j].pos
		}
		return all[i].seq < all[j].seq
	})
	for i, r := range all {
		if r.in == cur {
			return i + 1
		}
	}
	return 0
}

// remember the latest result of each callee (by short name; for calls through a function-typed variable, by the
// variable's name) so that call-site assertions can refer to it: lastresult("name")
func (fr *Frame) noteResult(cc *ssa.CallCommon, res Val) {
	first := res
	if len(res.Tuple) > 0 {
		first = res.Tuple[0]
	}
	var names []string
	if cc.IsInvoke() {
		names = append(names, cc.Method.Name())
	} else if f := cc.StaticCallee(); f != nil {
		names = append(names, f.Name())
		if i := strings.LastIndex(f.String(), "."); i >= 0 {
			names = append(names, f.String()[i+1:])
		}
	} else {
		v := cc.Value
		if u, ok := v.(*ssa.UnOp); ok {
			v = u.X
		}
		switch x := v.(type) {
		case *ssa.FreeVar:
			names = append(names, x.Name())
		case *ssa.Parameter:
			names = append(names, x.Name())
		case *ssa.Alloc:
			names = append(names, x.Comment)
		}
		if n := dynCallName(cc); n != "dynamic" {
			if i := strings.LastIndex(n, "."); i >= 0 {
				names = append(names, n[i+1:])
			}
		}
	}
	for _, n := range names {
		fr.lastRes[n] = first
		for i, c := range res.Tuple {
			fr.lastRes[fmt.Sprintf("%s@%d", n, i)] = c
		}
		if k := fr.sourceOrdinal(n); k > 0 {
			fr.lastRes[fmt.Sprintf("%s#%d", n, k)] = first
			for i, c := range res.Tuple {
				fr.lastRes[fmt.Sprintf("%s#%d@%d", n, k, i)] = c
			}
		}
	}
}
