package main

// translation of contract expressions to SMT terms in an environment

import (
	"fmt"
	"go/constant"
	"go/token"
	"go/types"
	"strings"
)

type Env struct {
	e      *Engine
	pkg    *types.Package
	names  map[string]Val
	lookup func(name string) (Val, bool)
	// address of an address-taken local variable (the cell go/ssa allocates for it): addr(x)
	addrOf func(name string) (Val, bool)
	// allocation counter at the header of the innermost enclosing loop, for the current iteration: iterfresh(x)
	iterAlloc func() (string, bool)
	// oldLookup resolves names inside old(...): parameters at their entry values
	oldLookup func(name string) (Val, bool)
	visitedComp func() string
	lastResult  func(name string) (Val, bool)
	st     *State
	old    *State
	bound  map[string]Val
	qvars  int // number of enclosing quantifiers translated with bound (non-skolem) variables
	depth  int
	// skolemisation of positive universal quantifiers in goals
	skolemize bool
	negative  bool
	skolems   []string
}

func (env *Env) with(st *State) *Env {
	n := *env
	n.st = st
	return &n
}

type specErr struct{ msg string }

func (s specErr) Error() string { return s.msg }

func sfail(f string, a ...interface{}) { panic(specErr{fmt.Sprintf(f, a...)}) }

var mathInt = types.Typ[types.UntypedInt]

func (env *Env) Bool(x *Expr) (term string, err error) {
	defer func() {
		if r := recover(); r != nil {
			if se, ok := r.(specErr); ok {
				err = se
				return
			}
			panic(r)
		}
	}()
	v := env.tr(x)
	if env.e.sortOf(v.Ty) != "Bool" {
		sfail("expression %s is not boolean", x)
	}
	return v.T, nil
}

func (env *Env) Val(x *Expr) (v Val, err error) {
	defer func() {
		if r := recover(); r != nil {
			if se, ok := r.(specErr); ok {
				err = se
				return
			}
			panic(r)
		}
	}()
	v = env.tr(x)
	return v, nil
}

func (env *Env) parseType(s string) types.Type {
	s = strings.TrimSpace(s)
	switch s {
	case "int":
		return mathInt
	case "bool":
		return types.Typ[types.Bool]
	case "string":
		return types.Typ[types.String]
	case "byte":
		return types.Typ[types.Uint8]
	case "ref":
		return types.Typ[types.UnsafePointer]
	}
	if env.pkg != nil {
		tv, err := types.Eval(token.NewFileSet(), env.pkg, token.NoPos, s)
		if err == nil && tv.Type != nil {
			return tv.Type
		}
		// prefix (*, []) + imported package qualified name
		prefix := ""
		rest := s
		for strings.HasPrefix(rest, "*") || strings.HasPrefix(rest, "[]") {
			if strings.HasPrefix(rest, "*") {
				prefix += "*"
				rest = rest[1:]
			} else {
				prefix += "[]"
				rest = rest[2:]
			}
		}
		if i := strings.Index(rest, "."); i > 0 {
			for _, imp := range env.pkg.Imports() {
				if imp.Name() == rest[:i] || strings.HasSuffix(imp.Path(), "/"+rest[:i]) {
					if o := imp.Scope().Lookup(rest[i+1:]); o != nil {
						if tn, ok := o.(*types.TypeName); ok {
							var t types.Type = tn.Type()
							for j := len(prefix); j > 0; {
								if strings.HasSuffix(prefix[:j], "[]") {
									t = types.NewSlice(t)
									j -= 2
								} else {
									t = types.NewPointer(t)
									j--
								}
							}
							return t
						}
					}
				}
			}
		}
	}
	tv, err := types.Eval(token.NewFileSet(), nil, token.NoPos, s)
	if err == nil && tv.Type != nil {
		return tv.Type
	}
	if t := env.e.globalType(s); t != nil {
		return t
	}
	sfail("cannot resolve type %q", s)
	return nil
}

func isInt(t types.Type) bool {
	b, ok := t.Underlying().(*types.Basic)
	return ok && b.Info()&types.IsInteger != 0
}
func isStr(t types.Type) bool {
	b, ok := t.Underlying().(*types.Basic)
	return ok && b.Info()&types.IsString != 0
}
func isBoolT(t types.Type) bool {
	b, ok := t.Underlying().(*types.Basic)
	return ok && b.Info()&types.IsBoolean != 0
}

func (env *Env) ident(name string) (Val, bool) {
	if v, ok := env.bound[name]; ok {
		return v, true
	}
	if v, ok := env.names[name]; ok {
		return v, true
	}
	if env.lookup != nil {
		if v, ok := env.lookup(name); ok {
			return v, true
		}
	}
	e := env.e
	switch name {
	case "true", "false":
		return Val{T: name, Ty: types.Typ[types.Bool]}, true
	case "nil":
		return Val{T: "0", Ty: types.Typ[types.UntypedNil]}, true
	case "alloc":
		return Val{T: e.get(env.st, "alloc"), Ty: mathInt}, true
	}
	if g, ok := e.specs.Ghosts[name]; ok {
		c := e.comp("ghost$"+name, g.Sort)
		return Val{T: e.get(env.st, c), Ty: ghostType{g.Sort}}, true
	}
	if c, ok := e.specs.Consts[name]; ok {
		return Val{T: c, Ty: mathInt}, true
	}
	if env.pkg != nil {
		if o := env.pkg.Scope().Lookup(name); o != nil {
			return env.object(o)
		}
	}
	return Val{}, false
}

// ghostType wraps an SMT sort for ghost variables
type ghostType struct{ sort string }

func (g ghostType) Underlying() types.Type { return g }
func (g ghostType) String() string         { return "ghost:" + g.sort }

func (env *Env) object(o types.Object) (Val, bool) {
	e := env.e
	switch o := o.(type) {
	case *types.Const:
		return e.constVal(o.Val(), o.Type()), true
	case *types.Var:
		// package-level variable
		name := shortPath(o.Pkg().Path()) + "." + o.Name()
		if t, ok := e.errGlobalTerm(o); ok {
			return Val{T: t, Ty: o.Type()}, true
		}
		if _, ok := isStruct(o.Type()); ok {
			return Val{T: e.globalAddr(name), Ty: types.NewPointer(o.Type())}, true
		}
		if _, ok := o.Type().Underlying().(*types.Array); ok {
			return Val{T: e.loadAt(env.st, e.globalAddr(name), nil, o.Type()), Ty: o.Type()}, true
		}
		c := e.comp("G$"+name, e.sortOf(o.Type()))
		return Val{T: e.get(env.st, c), Ty: o.Type()}, true
	}
	return Val{}, false
}

func (e *Engine) constVal(c constant.Value, t types.Type) Val {
	switch c.Kind() {
	case constant.Bool:
		if constant.BoolVal(c) {
			return Val{T: "true", Ty: t}
		}
		return Val{T: "false", Ty: t}
	case constant.Int:
		s := c.ExactString()
		if strings.HasPrefix(s, "-") {
			return Val{T: "(- " + s[1:] + ")", Ty: t}
		}
		return Val{T: s, Ty: t}
	case constant.String:
		return Val{T: e.strConst(constant.StringVal(c)), Ty: t}
	case constant.Float:
		if isInt(t) {
			if i := constant.ToInt(c); i.Kind() == constant.Int {
				return e.constVal(i, t)
			}
		}
		return Val{T: e.floatConst(c.ExactString()), Ty: t}
	}
	return Val{T: e.sc.fresh("const", e.sortOf(t)), Ty: t}
}

func (e *Engine) globalAddr(name string) string {
	q := sym("gaddr$" + name)
	if !e.sc.seen[q] {
		e.sc.decl("gaddr$"+name, "Int")
		id := len(e.typeIDs) + 1000
		e.typeIDs["gaddr$"+name] = id
		e.sc.assert(fmt.Sprintf("(= %s (- %d))", q, id))
	}
	return q
}

func (env *Env) tr(x *Expr) Val {
	e := env.e
	switch x.Op {
	case "int":
		return Val{T: x.Name, Ty: mathInt}
	case "str":
		return Val{T: e.strConst(x.Name), Ty: types.Typ[types.String]}
	case "hash":
		v, ok := env.ident(strings.TrimPrefix(x.Name, "#"))
		if !ok {
			sfail("cannot resolve %s", x.Name)
		}
		return v
	case "ident":
		if x.Name == "result" {
			if v, ok := env.names["result"]; ok {
				return v
			}
		}
		v, ok := env.ident(x.Name)
		if !ok {
			sfail("cannot resolve identifier %q", x.Name)
		}
		return v
	case "unary":
		if x.Name == "!" {
			env.negative = !env.negative
		}
		a := env.tr(x.Args[0])
		if x.Name == "!" {
			env.negative = !env.negative
		}
		switch x.Name {
		case "!":
			return Val{T: sNot(a.T), Ty: types.Typ[types.Bool]}
		case "-":
			return Val{T: "(- " + a.T + ")", Ty: mathInt}
		}
	case "binary":
		return env.binary(x)
	case "forall", "exists":
		if env.skolemize && (x.Op == "forall" && !env.negative || x.Op == "exists" && env.negative) {
			saved := env.bound
			nb := map[string]Val{}
			for k, v := range saved {
				nb[k] = v
			}
			var guards []string
			for _, v := range x.Vars {
				t := env.parseType(v.Type)
				c := e.sc.fresh("sk$"+v.Name, e.sortOf(t))
				nb[v.Name] = Val{T: c, Ty: t}
				if t != mathInt {
					if r := e.rangeOf(c, t); r != "" {
						guards = append(guards, r)
					}
				}
				if e.sortOf(t) == "Int" {
					env.skolems = append(env.skolems, c)
				}
			}
			env.bound = nb
			body := env.tr(x.Args[0])
			env.bound = saved
			if x.Op == "forall" {
				return Val{T: sImp(sAnd(guards...), body.T), Ty: types.Typ[types.Bool]}
			}
			return Val{T: sAnd(append(guards, body.T)...), Ty: types.Typ[types.Bool]}
		}
		saved := env.bound
		nb := map[string]Val{}
		for k, v := range saved {
			nb[k] = v
		}
		var decls []string
		var guards []string
		for _, v := range x.Vars {
			t := env.parseType(v.Type)
			q := sym("q$" + v.Name)
			decls = append(decls, "("+q+" "+e.sortOf(t)+")")
			nb[v.Name] = Val{T: q, Ty: t}
			if t != mathInt {
				if r := e.rangeOf(q, t); r != "" {
					guards = append(guards, r)
				}
			}
		}
		env.bound = nb
		env.qvars++
		body := env.tr(x.Args[0])
		env.qvars--
		env.bound = saved
		if e.sortOf(body.Ty) != "Bool" {
			sfail("quantifier body not boolean")
		}
		var b string
		if x.Op == "forall" {
			b = sImp(sAnd(guards...), body.T)
		} else {
			b = sAnd(append(guards, body.T)...)
		}
		return Val{T: "(" + x.Op + " (" + strings.Join(decls, " ") + ") " + b + ")", Ty: types.Typ[types.Bool]}
	case "sel":
		// package-qualified constant or type-qualified? try value first
		if x.Args[0].Op == "ident" {
			if _, ok := env.ident(x.Args[0].Name); !ok {
				// maybe imported package
				if env.pkg != nil {
					for _, imp := range env.pkg.Imports() {
						if imp.Name() == x.Args[0].Name {
							if o := imp.Scope().Lookup(x.Name); o != nil {
								if v, ok := env.object(o); ok {
									return v
								}
							}
						}
					}
				}
				sfail("cannot resolve %s.%s", x.Args[0].Name, x.Name)
			}
		}
		a := env.tr(x.Args[0])
		return env.selField(a, x.Name)
	case "index":
		a := env.tr(x.Args[0])
		i := env.tr(x.Args[1])
		return env.index(a, i)
	case "slice":
		a := env.tr(x.Args[0])
		lo := "0"
		if x.Args[1] != nil {
			lo = env.tr(x.Args[1]).T
		}
		switch a.Ty.Underlying().(type) {
		case *types.Slice:
			hi := "(s_len " + a.T + ")"
			if x.Args[2] != nil {
				hi = env.tr(x.Args[2]).T
			}
			return Val{T: fmt.Sprintf("(mk_slice (s_arr %[1]s) (+ (s_off %[1]s) %[2]s) (- %[3]s %[2]s) (- (s_cap %[1]s) %[2]s))", a.T, lo, hi), Ty: a.Ty}
		}
		sfail("slice expression on unsupported type %s", a.Ty)
	case "call":
		return env.call(x)
	}
	sfail("unsupported expression %s", x)
	return Val{}
}

func (env *Env) selField(a Val, name string) Val {
	e := env.e
	t := a.Ty
	if g, ok := t.(ghostType); ok {
		_ = g
		sfail("selector on ghost value")
	}
	// pointer to struct (address) or struct value
	if p, ok := t.Underlying().(*types.Pointer); ok {
		st, ok := isStruct(p.Elem())
		if !ok {
			sfail("selector .%s on pointer to non-struct %s", name, t)
		}
		key := e.structKey(p.Elem())
		f, path := findField(st, name)
		if f == nil {
			sfail("no field %s in %s", name, key)
		}
		return env.fieldAt(a.T, p.Elem(), path)
	}
	if st, ok := isStruct(t); ok {
		f, path := findField(st, name)
		if f == nil {
			sfail("no field %s in %s", name, t)
		}
		cur := a
		for _, idx := range path {
			s, _ := isStruct(cur.Ty)
			fld := s.Field(idx)
			if pp, ok := cur.Ty.Underlying().(*types.Pointer); ok {
				_ = pp
			}
			e.declStruct(cur.Ty, s)
			cur = Val{T: "(" + sym(e.structKey(cur.Ty)+"."+fld.Name()) + " " + cur.T + ")", Ty: fld.Type()}
			if p2, ok := cur.Ty.Underlying().(*types.Pointer); ok && len(path) > 1 {
				_ = p2
			}
		}
		return cur
	}
	sfail("selector .%s on %s", name, t)
	return Val{}
}

// walk a field path starting at a struct address
func (env *Env) fieldAt(addr string, st types.Type, path []int) Val {
	e := env.e
	curAddr := addr
	curT := st
	for k, idx := range path {
		s, _ := isStruct(curT)
		f := s.Field(idx)
		key := e.structKey(curT)
		last := k == len(path)-1
		if _, isS := isStruct(f.Type()); isS {
			curAddr = e.fa(key, f.Name(), curAddr)
			curT = f.Type()
			if last {
				return Val{T: curAddr, Ty: types.NewPointer(f.Type())}
			}
			continue
		}
		if _, isA := f.Type().Underlying().(*types.Array); isA {
			fa := e.fa(key, f.Name(), curAddr)
			if last {
				return Val{T: e.loadAt(env.st, fa, nil, f.Type()), Ty: f.Type()}
			}
			sfail("path through array field")
		}
		c, _ := e.fieldComp(key, f)
		v := "(select " + e.get(env.st, c) + " " + curAddr + ")"
		if last {
			if env.qvars == 0 && env.st != nil {
				// a reference stored in a program state was allocated in that state
				switch f.Type().Underlying().(type) {
				case *types.Slice:
					e.sc.assert("(<= (s_arr " + v + ") " + e.get(env.st, "alloc") + ")")
				case *types.Pointer, *types.Map:
					e.sc.assert("(<= " + v + " " + e.get(env.st, "alloc") + ")")
				}
			}
			return Val{T: v, Ty: f.Type()}
		}
		// embedded pointer: continue through it
		p, ok := f.Type().Underlying().(*types.Pointer)
		if !ok {
			sfail("path through non-struct field %s", f.Name())
		}
		curAddr = v
		curT = p.Elem()
	}
	return Val{}
}

// find a (possibly promoted) field; returns index path
func findField(st *types.Struct, name string) (*types.Var, []int) {
	for i := 0; i < st.NumFields(); i++ {
		if st.Field(i).Name() == name {
			return st.Field(i), []int{i}
		}
	}
	for i := 0; i < st.NumFields(); i++ {
		f := st.Field(i)
		if !f.Embedded() {
			continue
		}
		t := f.Type()
		if p, ok := t.Underlying().(*types.Pointer); ok {
			t = p.Elem()
		}
		if s2, ok := isStruct(t); ok {
			if ff, path := findField(s2, name); ff != nil {
				return ff, append([]int{i}, path...)
			}
		}
	}
	return nil, nil
}

func (env *Env) index(a, i Val) Val {
	e := env.e
	switch u := a.Ty.Underlying().(type) {
	case *types.Slice:
		if _, ok := isStruct(u.Elem()); ok {
			return Val{T: fmt.Sprintf("(ea (s_arr %[1]s) (+ (s_off %[1]s) %[2]s))", a.T, i.T), Ty: types.NewPointer(u.Elem())}
		}
		c := e.elemComp(u.Elem())
		return Val{T: fmt.Sprintf("(select (select %s (s_arr %s)) (+ (s_off %s) %s))", e.get(env.st, c), a.T, a.T, i.T), Ty: u.Elem()}
	case *types.Array:
		return Val{T: "(select " + a.T + " " + i.T + ")", Ty: u.Elem()}
	case *types.Pointer:
		if arr, ok := u.Elem().Underlying().(*types.Array); ok {
			c := e.elemComp(arr.Elem())
			return Val{T: fmt.Sprintf("(select (select %s %s) %s)", e.get(env.st, c), a.T, i.T), Ty: arr.Elem()}
		}
	case *types.Map:
		_, val := e.mapComps(u)
		return Val{T: fmt.Sprintf("(select (select %s %s) %s)", e.get(env.st, val), a.T, i.T), Ty: u.Elem()}
	case *types.Basic:
		if u.Info()&types.IsString != 0 {
			return Val{T: "(sat " + a.T + " " + i.T + ")", Ty: types.Typ[types.Uint8]}
		}
	case ghostType:
		srt := u.sort
		// (Array Int X)
		inner := strings.TrimSuffix(strings.TrimPrefix(srt, "(Array Int "), ")")
		var ty types.Type = mathInt
		if inner == "Bool" {
			ty = types.Typ[types.Bool]
		} else if strings.HasPrefix(inner, "(Array") {
			ty = ghostType{inner}
		}
		return Val{T: "(select " + a.T + " " + i.T + ")", Ty: ty}
	}
	sfail("index on unsupported type %s", a.Ty)
	return Val{}
}

func (env *Env) binary(x *Expr) Val {
	e := env.e
	op := x.Name
	boolT := types.Typ[types.Bool]
	switch op {
	case "&&", "||", "==>", "<==>":
		var a, b Val
		switch op {
		case "==>":
			env.negative = !env.negative
			a = env.tr(x.Args[0])
			env.negative = !env.negative
			b = env.tr(x.Args[1])
		case "<==>":
			sk := env.skolemize
			env.skolemize = false
			a = env.tr(x.Args[0])
			b = env.tr(x.Args[1])
			env.skolemize = sk
		default:
			a = env.tr(x.Args[0])
			b = env.tr(x.Args[1])
		}
		if e.sortOf(a.Ty) != "Bool" || e.sortOf(b.Ty) != "Bool" {
			sfail("operands of %s must be boolean in %s", op, x)
		}
		switch op {
		case "&&":
			return Val{T: sAnd(a.T, b.T), Ty: boolT}
		case "||":
			return Val{T: sOr(a.T, b.T), Ty: boolT}
		case "==>":
			return Val{T: sImp(a.T, b.T), Ty: boolT}
		default:
			return Val{T: "(= " + a.T + " " + b.T + ")", Ty: boolT}
		}
	}
	a := env.tr(x.Args[0])
	b := env.tr(x.Args[1])
	switch op {
	case "==", "!=":
		var t string
		sa, sb := e.sortOf(a.Ty), e.sortOf(b.Ty)
		if _, ok := a.Ty.(ghostType); ok {
			sa = a.Ty.(ghostType).sort
		}
		if _, ok := b.Ty.(ghostType); ok {
			sb = b.Ty.(ghostType).sort
		}
		if sa == "Slice" && b.T == "0" {
			t = "(= (s_arr " + a.T + ") 0)"
		} else if sb == "Slice" && a.T == "0" {
			t = "(= (s_arr " + b.T + ") 0)"
		} else if sa != sb {
			sfail("comparison of different sorts %s vs %s in %s", sa, sb, x)
		} else if isStr(a.Ty) || isStr(b.Ty) {
			t = e.strEq(a.T, b.T)
		} else {
			t = "(= " + a.T + " " + b.T + ")"
		}
		if op == "!=" {
			t = sNot(t)
		}
		return Val{T: t, Ty: boolT}
	case "<", "<=", ">", ">=":
		return Val{T: "(" + op + " " + a.T + " " + b.T + ")", Ty: boolT}
	case "+", "-", "*":
		return Val{T: "(" + op + " " + a.T + " " + b.T + ")", Ty: mathInt}
	case "/":
		return Val{T: "(div " + a.T + " " + b.T + ")", Ty: mathInt}
	case "%":
		return Val{T: "(mod " + a.T + " " + b.T + ")", Ty: mathInt}
	case "<<":
		return Val{T: "(* " + a.T + " (pow2 " + b.T + "))", Ty: mathInt}
	case ">>":
		return Val{T: "(div " + a.T + " (pow2 " + b.T + "))", Ty: mathInt}
	case "&":
		return Val{T: "(band " + a.T + " " + b.T + ")", Ty: mathInt}
	case "|":
		return Val{T: "(bor " + a.T + " " + b.T + ")", Ty: mathInt}
	case "^":
		return Val{T: "(bxor " + a.T + " " + b.T + ")", Ty: mathInt}
	}
	sfail("unsupported operator %s", op)
	return Val{}
}

func (env *Env) call(x *Expr) Val {
	e := env.e
	boolT := types.Typ[types.Bool]
	switch x.Name {
	case "old":
		if env.old == nil {
			sfail("old() not available here")
		}
		n := *env
		n.st = env.old
		if env.oldLookup != nil {
			n.lookup = env.oldLookup
		}
		return n.tr(x.Args[0])
	case "len":
		a := env.tr(x.Args[0])
		switch u := a.Ty.Underlying().(type) {
		case *types.Slice:
			return Val{T: "(s_len " + a.T + ")", Ty: mathInt}
		case *types.Array:
			return Val{T: fmt.Sprint(u.Len()), Ty: mathInt}
		case *types.Basic:
			if u.Info()&types.IsString != 0 {
				return Val{T: "(slen " + a.T + ")", Ty: mathInt}
			}
		case *types.Pointer:
			if arr, ok := u.Elem().Underlying().(*types.Array); ok {
				return Val{T: fmt.Sprint(arr.Len()), Ty: mathInt}
			}
		}
		sfail("len of %s", a.Ty)
	case "cap":
		a := env.tr(x.Args[0])
		return Val{T: "(s_cap " + a.T + ")", Ty: mathInt}
	case "arr":
		a := env.tr(x.Args[0])
		return Val{T: "(s_arr " + a.T + ")", Ty: mathInt}
	case "off":
		a := env.tr(x.Args[0])
		return Val{T: "(s_off " + a.T + ")", Ty: mathInt}
	case "has":
		m := env.tr(x.Args[0])
		k := env.tr(x.Args[1])
		mt, ok := m.Ty.Underlying().(*types.Map)
		if !ok {
			sfail("has() on non-map")
		}
		dom, _ := e.mapComps(mt)
		return Val{T: fmt.Sprintf("(select (select %s %s) %s)", e.get(env.st, dom), m.T, k.T), Ty: boolT}
	case "fresh":
		a := env.tr(x.Args[0])
		if env.old == nil {
			sfail("fresh() needs an old state")
		}
		t := a.T
		if e.sortOf(a.Ty) == "Slice" {
			t = "(s_arr " + a.T + ")"
		}
		return Val{T: "(> " + t + " " + e.get(env.old, "alloc") + ")", Ty: boolT}
	case "iterfresh":
		// x was allocated during the current iteration of the innermost enclosing loop
		a := env.tr(x.Args[0])
		if env.iterAlloc == nil {
			sfail("iterfresh() needs a program point inside a loop")
		}
		h, ok := env.iterAlloc()
		if !ok {
			sfail("iterfresh(): no enclosing loop")
		}
		t := a.T
		if e.sortOf(a.Ty) == "Slice" {
			t = "(s_arr " + a.T + ")"
		}
		return Val{T: "(> " + t + " " + h + ")", Ty: boolT}
	case "ite":
		c := env.tr(x.Args[0])
		a := env.tr(x.Args[1])
		b := env.tr(x.Args[2])
		return Val{T: "(ite " + c.T + " " + a.T + " " + b.T + ")", Ty: a.Ty}
	case "min":
		a := env.tr(x.Args[0])
		b := env.tr(x.Args[1])
		return Val{T: "(imin " + a.T + " " + b.T + ")", Ty: mathInt}
	case "max":
		a := env.tr(x.Args[0])
		b := env.tr(x.Args[1])
		return Val{T: "(imax " + a.T + " " + b.T + ")", Ty: mathInt}
	case "addr":
		// address of a field: addr(x.f) -> fa$T$f(x)
		ax := x.Args[0]
		if ax.Op == "ident" && env.addrOf != nil {
			if v, ok := env.addrOf(ax.Name); ok {
				return v
			}
			sfail("addr(%s): no address-taken local of that name is in scope", ax.Name)
		}
		if ax.Op != "sel" {
			sfail("addr() needs a field selector or an address-taken local")
		}
		base := env.tr(ax.Args[0])
		p, ok := base.Ty.Underlying().(*types.Pointer)
		if !ok {
			sfail("addr(): base is not a pointer")
		}
		st, _ := isStruct(p.Elem())
		f, path := findField(st, ax.Name)
		if f == nil || len(path) != 1 {
			sfail("addr(): field %s not found directly", ax.Name)
		}
		return Val{T: e.fa(e.structKey(p.Elem()), f.Name(), base.T), Ty: types.NewPointer(f.Type())}
	case "lastresult":
		if x.Args[0].Op != "str" || env.lastResult == nil {
			sfail("lastresult needs a string literal callee name at a program point")
		}
		key := x.Args[0].Name
		if len(x.Args) > 1 {
			// lastresult("callee", k): the k-th component of a tuple result
			if x.Args[1].Op != "int" {
				sfail("lastresult: the component index must be a literal")
			}
			key += "@" + x.Args[1].Name
		}
		v, ok := env.lastResult(key)
		if !ok {
			sfail("lastresult(%q): no such call before this point", x.Args[0].Name)
		}
		return v
	case "ptr":
		// ptr("T", x): view an integer (e.g. a ghost map value) as a pointer of the given type
		if x.Args[0].Op != "str" {
			sfail("ptr needs a string literal type")
		}
		t := env.parseType(x.Args[0].Name)
		a := env.tr(x.Args[1])
		return Val{T: a.T, Ty: t}
	case "rawat":
		// element at an absolute position of the backing array of slice b (position-based specs avoid offset arithmetic in triggers)
		a := env.tr(x.Args[0])
		p := env.tr(x.Args[1])
		sl, ok := a.Ty.Underlying().(*types.Slice)
		if !ok {
			sfail("rawat of non-slice")
		}
		c := e.elemComp(sl.Elem())
		return Val{T: fmt.Sprintf("(select (select %s (s_arr %s)) %s)", e.get(env.st, c), a.T, p.T), Ty: sl.Elem()}
	case "bytesval":
		// abstract value of the byte string held by a slice: a function of the contents, offset and length
		a := env.tr(x.Args[0])
		if arr, isArr := a.Ty.Underlying().(*types.Array); isArr {
			f := e.sc.declFun("bval", []string{"(Array Int " + e.sortOf(arr.Elem()) + ")", "Int", "Int"}, "Int")
			return Val{T: fmt.Sprintf("(%s %s 0 %d)", f, a.T, arr.Len()), Ty: mathInt}
		}
		sl, ok := a.Ty.Underlying().(*types.Slice)
		if !ok {
			sfail("bytesval of non-slice")
		}
		f := e.sc.declFun("bval", []string{"(Array Int " + e.sortOf(sl.Elem()) + ")", "Int", "Int"}, "Int")
		c := e.elemComp(sl.Elem())
		return Val{T: fmt.Sprintf("(%s (select %s (s_arr %s)) (s_off %s) (s_len %s))", f, e.get(env.st, c), a.T, a.T, a.T), Ty: mathInt}
	case "flt", "fle":
		// the engine's (uninterpreted) order on float values: flt(a, b) is what the Go expression a < b evaluates to
		a, b := env.tr(x.Args[0]), env.tr(x.Args[1])
		f := e.sc.declFun(x.Name, []string{"Int", "Int"}, "Bool")
		return Val{T: "(" + f + " " + a.T + " " + b.T + ")", Ty: boolT}
	case "fconst":
		if x.Args[0].Op != "str" {
			sfail("fconst needs a string literal")
		}
		return Val{T: e.floatConst(x.Args[0].Name), Ty: types.Typ[types.Float64]}
	case "funcref":
		// funcref("pkg/path.Name"): the constant a function value of that name evaluates to
		if x.Args[0].Op != "str" {
			sfail("funcref needs a string literal")
		}
		return Val{T: e.funcConstByName(x.Args[0].Name), Ty: mathInt}
	case "substr":
		// substr(s, lo, hi): the term the engine uses for the Go expression s[lo:hi] on strings
		a, lo, hi := env.tr(x.Args[0]), env.tr(x.Args[1]), env.tr(x.Args[2])
		f := e.sc.declFun("substr", []string{"Int", "Int", "Int"}, "Int")
		return Val{T: fmt.Sprintf("(%s %s %s %s)", f, a.T, lo.T, hi.T), Ty: types.Typ[types.String]}
	case "concat":
		// concat(a, b): the term the engine uses for the Go expression a + b on strings
		a, b := env.tr(x.Args[0]), env.tr(x.Args[1])
		f := e.sc.declFun("sconcat", []string{"Int", "Int"}, "Int")
		r := fmt.Sprintf("(%s %s %s)", f, a.T, b.T)
		if env.qvars == 0 && !e.sc.seen["concatfacts "+r] {
			// the same length / position facts the executor states for a + b
			e.sc.seen["concatfacts "+r] = true
			e.sc.assert(fmt.Sprintf("(= (slen %s) (+ (slen %s) (slen %s)))", r, a.T, b.T))
			e.sc.assert(fmt.Sprintf("(forall ((i Int)) (! (=> (and (<= 0 i) (< i (slen %s))) (= (sat %s i) (sat %s i))) :pattern ((sat %s i))))", a.T, r, a.T, r))
			e.sc.assert(fmt.Sprintf("(forall ((i Int)) (! (=> (and (<= 0 i) (< i (slen %s))) (= (sat %s (+ (slen %s) i)) (sat %s i))) :pattern ((sat %s i))))", b.T, r, a.T, b.T, b.T))
		}
		return Val{T: r, Ty: types.Typ[types.String]}
	case "visited":
		if env.visitedComp == nil {
			sfail("visited() outside a map-range loop")
		}
		c := env.visitedComp()
		if c == "" {
			sfail("visited(): no map iteration in scope")
		}
		k := env.tr(x.Args[0])
		return Val{T: "(select " + e.get(env.st, c) + " " + k.T + ")", Ty: boolT}
	case "deref":
		a := env.tr(x.Args[0])
		p, ok := a.Ty.Underlying().(*types.Pointer)
		if !ok {
			sfail("deref of non-pointer")
		}
		return Val{T: e.loadAt(env.st, a.T, a.Src, p.Elem()), Ty: p.Elem()}
	case "dyntype":
		a := env.tr(x.Args[0])
		return Val{T: "(dyntype " + a.T + ")", Ty: mathInt}
	case "typeid":
		if x.Args[0].Op != "str" {
			sfail("typeid needs a string literal type")
		}
		t := env.parseType(x.Args[0].Name)
		id := e.typeID(t)
		if errT, ok := types.Universe.Lookup("error").Type().Underlying().(*types.Interface); ok && !types.Implements(t, errT) {
			if k := fmt.Sprintf("noerr:%d", id); !e.sc.seen[k] {
				e.sc.seen[k] = true
				e.sc.assert(fmt.Sprintf("(not (implErr %d))", id))
			}
		}
		return Val{T: fmt.Sprint(id), Ty: mathInt}
	case "unbox":
		// unbox("T", x)
		if x.Args[0].Op != "str" {
			sfail("unbox needs a string literal type")
		}
		t := env.parseType(x.Args[0].Name)
		a := env.tr(x.Args[1])
		return Val{T: "(" + e.unboxFun(t) + " " + a.T + ")", Ty: t}
	case "int", "uint64", "uint32", "uint8", "uint16", "int64", "int32", "uint", "byte":
		a := env.tr(x.Args[0])
		return Val{T: a.T, Ty: mathInt}
	}
	// spec function
	if sf, ok := env.specFunc(x.Name); ok && sf.Body != nil {
		// defined spec functions are macros: expanded in the current state (they may read the heap)
		if len(x.Args) != len(sf.Params) {
			sfail("spec func %s expects %d args", x.Name, len(sf.Params))
		}
		if env.depth > 20 {
			sfail("spec func %s: expansion too deep (recursive?)", x.Name)
		}
		nb := map[string]Val{}
		for i, a := range x.Args {
			nb[sf.Params[i].Name] = env.tr(a)
		}
		sub := *env
		sub.bound = nb
		sub.names = map[string]Val{}
		sub.lookup = nil
		sub.depth = env.depth + 1
		if p := e.pkgTypes(sf.Pkg); p != nil {
			sub.pkg = p
		}
		return sub.tr(sf.Body)
	}
	if sf, ok := env.specFunc(x.Name); ok {
		fn := e.declSpecFunc(sf)
		var args []string
		if len(x.Args) != len(sf.Params) {
			sfail("spec func %s expects %d args", x.Name, len(sf.Params))
		}
		for _, a := range x.Args {
			args = append(args, env.tr(a).T)
		}
		penv := &Env{e: e, pkg: e.pkgTypes(sf.Pkg)}
		if penv.pkg == nil {
			penv.pkg = env.pkg
		}
		return Val{T: sApp(fn, args...), Ty: penv.parseType(sf.Ret)}
	}
	sfail("unknown function %s in contract", x.Name)
	return Val{}
}

func (e *Engine) pkgTypes(path string) *types.Package {
	if path == "" {
		return nil
	}
	if sp, ok := e.spkgs[path]; ok {
		return sp.Pkg
	}
	return nil
}

func (e *Engine) declSpecFunc(sf *SpecFunc) string {
	q := sym("spec$" + shortPath(sf.Pkg) + "$" + sf.Name)
	if e.sc.seen[q] {
		return q
	}
	env := &Env{e: e, pkg: e.pkgTypes(sf.Pkg), st: &State{comps: map[string]string{}, base: "0"}}
	var sorts []string
	var decls []string
	bound := map[string]Val{}
	for _, p := range sf.Params {
		t := env.parseType(p.Type)
		sorts = append(sorts, e.sortOf(t))
		v := sym("p$" + p.Name)
		decls = append(decls, "("+v+" "+e.sortOf(t)+")")
		bound[p.Name] = Val{T: v, Ty: t}
	}
	ret := e.sortOf(env.parseType(sf.Ret))
	if sf.Body == nil {
		e.sc.seen[q] = true
		e.sc.emit("(declare-fun " + q + " (" + strings.Join(sorts, " ") + ") " + ret + ")")
		return q
	}
	env.bound = bound
	// mark as seen before translating to catch recursion
	body := env.tr(sf.Body)
	e.sc.seen[q] = true
	e.sc.emit("(define-fun " + q + " (" + strings.Join(decls, " ") + ") " + ret + " " + body.T + ")")
	return q
}

func (e *Engine) unboxFun(t types.Type) string {
	k := e.typeKey(t)
	return e.sc.declFun("unbox$"+k, []string{"Int"}, e.sortOf(t))
}

func (e *Engine) boxFun(t types.Type) string {
	k := e.typeKey(t)
	return e.sc.declFun("box$"+k, []string{e.sortOf(t)}, "Int")
}

// box a value into an interface; instance facts instead of quantified axioms
func (e *Engine) box(t types.Type, x string) string {
	bf := e.boxFun(t)
	term := "(" + bf + " " + x + ")"
	key := "inst:" + term
	if !e.sc.seen[key] {
		e.sc.seen[key] = true
		ub := e.unboxFun(t)
		e.sc.assert(fmt.Sprintf("(and (= (%s %s) %s) (not (= %s 0)) (= (dyntype %s) %d))", ub, term, x, term, term, e.typeID(t)))
	}
	return term
}

// The axioms of the spec db are translated at the top of each script (so that the functions they mention are declared
// there) but only those that are relevant to the function under verification are asserted: an axiom is relevant when one
// of the spec functions it mentions is used by a contract, assertion or another relevant axiom of this script.
// (Asserting every axiom everywhere made unrelated queries come back "unknown": some axioms have matching loops.)
type pendingAxiom struct {
	name, src, text string
	funcs           map[*SpecFunc]bool
}

func (e *Engine) emitAxioms() {
	for _, ax := range e.specs.Axioms {
		env := &Env{e: e, pkg: e.pkgTypes(ax.Pkg), st: &State{comps: map[string]string{}, base: "0"}}
		cur := &pendingAxiom{name: ax.Name, src: ax.Src, funcs: map[*SpecFunc]bool{}}
		e.curAxiom = cur
		t, err := env.Bool(ax.Expr)
		e.curAxiom = nil
		if err != nil {
			// the axiom talks about types this package set does not import: it cannot concern these functions
			continue
		}
		cur.text = t
		e.pendingAx = append(e.pendingAx, cur)
	}
	e.axSlot = len(e.sc.lines)
	e.sc.emit("; axioms")
}

func (e *Engine) finalizeAxioms() {
	used := map[*SpecFunc]bool{}
	for f := range e.sfUsed {
		used[f] = true
	}
	done := map[*pendingAxiom]bool{}
	var out []string
	for changed := true; changed; {
		changed = false
		for _, ax := range e.pendingAx {
			if done[ax] {
				continue
			}
			rel := len(ax.funcs) == 0
			for f := range ax.funcs {
				if used[f] {
					rel = true
				}
			}
			if !rel {
				continue
			}
			done[ax] = true
			changed = true
			for f := range ax.funcs {
				used[f] = true
			}
			out = append(out, "; axiom "+ax.name, "(assert "+ax.text+")")
			e.assume("axiom " + ax.name + ": " + ax.src)
		}
	}
	if len(out) > 0 && e.axSlot < len(e.sc.lines) {
		e.sc.lines[e.axSlot] = strings.Join(out, "\n")
	}
}

// ------------------------------------------------------------------ ground instantiation of assumed universal facts

type qfact struct {
	env   *Env
	ex    *Expr
	guard string
	done  map[string]bool
}

// Goal translates a goal formula, skolemising positive universal quantifiers; assumed facts are
// instantiated at the skolem constants before the goal is stated.
func (env *Env) Goal(x *Expr) (string, error) {
	env.skolemize = true
	env.negative = false
	env.skolems = nil
	t, err := env.Bool(x)
	env.skolemize = false
	if err != nil {
		return "", err
	}
	for _, sk := range env.skolems {
		env.e.noteIndexTerm(sk)
	}
	return t, nil
}

// Assume-side: remember single-variable universal facts so they can be instantiated at index terms.
func (e *Engine) noteFacts(env *Env, x *Expr, guard string) {
	switch {
	case x.Op == "binary" && x.Name == "&&":
		e.noteFacts(env, x.Args[0], guard)
		e.noteFacts(env, x.Args[1], guard)
	case x.Op == "binary" && x.Name == "==>":
		lhs, err := env.Bool(x.Args[0])
		if err != nil {
			return
		}
		e.noteFacts(env, x.Args[1], sAnd(guard, lhs))
	case x.Op == "forall" && len(x.Vars) == 1:
		snap := *env
		if env.st != nil {
			snap.st = env.st.clone()
		}
		if env.old != nil {
			snap.old = env.old.clone()
		}
		nm := map[string]Val{}
		for k, v := range env.names {
			nm[k] = v
		}
		snap.names = nm
		nb := map[string]Val{}
		for k, v := range env.bound {
			nb[k] = v
		}
		snap.bound = nb
		snap.skolemize = false
		t := snap.parseTypeSafe(x.Vars[0].Type)
		if t == nil || e.sortOf(t) != "Int" {
			return
		}
		f := &qfact{env: &snap, ex: x, guard: guard, done: map[string]bool{}}
		e.qfacts = append(e.qfacts, f)
		if len(e.idxTerms) <= 60 {
			for _, t := range e.idxTerms {
				e.instantiate(f, t)
			}
		}
	case x.Op == "call":
		// expand defined spec predicates one level to find conjunct quantifiers
		if sf, ok := env.specFunc(x.Name); ok && sf.Body != nil && len(x.Args) == len(sf.Params) && env.depth < 6 {
			nb := map[string]Val{}
			for i, a := range x.Args {
				v, err := env.Val(a)
				if err != nil {
					return
				}
				nb[sf.Params[i].Name] = v
			}
			sub := *env
			sub.bound = nb
			sub.names = map[string]Val{}
			sub.lookup = nil
			sub.depth = env.depth + 1
			if p := e.pkgTypes(sf.Pkg); p != nil {
				sub.pkg = p
			}
			e.noteFacts(&sub, sf.Body, guard)
		}
	}
}

func (env *Env) parseTypeSafe(s string) (t types.Type) {
	defer func() {
		if r := recover(); r != nil {
			t = nil
		}
	}()
	return env.parseType(s)
}

func (e *Engine) instantiate(f *qfact, t string) {
	if f.done[t] {
		return
	}
	f.done[t] = true
	v := f.ex.Vars[0]
	ty := f.env.parseTypeSafe(v.Type)
	sub := *f.env
	nb := map[string]Val{}
	for k, vv := range f.env.bound {
		nb[k] = vv
	}
	nb[v.Name] = Val{T: t, Ty: ty}
	sub.bound = nb
	body, err := sub.Bool(f.ex.Args[0])
	if err != nil {
		return
	}
	g := f.guard
	if ty != mathInt {
		g = sAnd(g, e.rangeOf(t, ty))
	}
	e.sc.assert(sImp(g, body))
	// nested universal facts inside the instance become instantiable themselves
	if containsForall(f.ex.Args[0]) && sub.depth < 4 {
		sub.depth++
		e.noteFacts(&sub, f.ex.Args[0], g)
	}
}

func containsForall(x *Expr) bool {
	if x == nil {
		return false
	}
	if x.Op == "forall" {
		return true
	}
	for _, a := range x.Args {
		if containsForall(a) {
			return true
		}
	}
	return false
}

func (e *Engine) noteIndexTerm(t string) {
	if e.idxSeen[t] {
		return
	}
	if e.idxSeen == nil {
		e.idxSeen = map[string]bool{}
	}
	e.idxSeen[t] = true
	e.idxTerms = append(e.idxTerms, t)
	if len(e.idxTerms) > 60 {
		return
	}
	for _, f := range e.qfacts {
		e.instantiate(f, t)
	}
}

// resolve "[*|[]]pkg.Type" or "[*|[]]full/import/path.Type" against every package known to the loader
func (e *Engine) globalType(s string) types.Type {
	prefix := ""
	rest := s
	for strings.HasPrefix(rest, "*") || strings.HasPrefix(rest, "[]") {
		if strings.HasPrefix(rest, "*") {
			prefix += "*"
			rest = rest[1:]
		} else {
			prefix += "[]"
			rest = rest[2:]
		}
	}
	i := strings.LastIndex(rest, ".")
	if i <= 0 {
		return nil
	}
	pk, name := rest[:i], rest[i+1:]
	seen := map[*types.Package]bool{}
	var found types.Type
	var visit func(p *types.Package, depth int)
	visit = func(p *types.Package, depth int) {
		if p == nil || seen[p] || found != nil || depth > 4 {
			return
		}
		seen[p] = true
		if p.Path() == pk || p.Name() == pk || strings.HasSuffix(p.Path(), "/"+pk) {
			if o := p.Scope().Lookup(name); o != nil {
				if tn, ok := o.(*types.TypeName); ok {
					found = tn.Type()
					return
				}
			}
		}
		for _, imp := range p.Imports() {
			visit(imp, depth+1)
		}
	}
	for _, p := range e.pkgs {
		visit(p.Types, 0)
	}
	if found == nil {
		return nil
	}
	t := found
	for j := len(prefix); j > 0; {
		if strings.HasSuffix(prefix[:j], "[]") {
			t = types.NewSlice(t)
			j -= 2
		} else {
			t = types.NewPointer(t)
			j--
		}
	}
	return t
}

// spec functions are looked up in the package of the contract being translated first, then globally (ext specs)
func (env *Env) specFunc(name string) (*SpecFunc, bool) {
	sf, ok := env.specFunc0(name)
	if ok {
		if env.e.curAxiom != nil {
			env.e.curAxiom.funcs[sf] = true
		} else {
			env.e.sfUsed[sf] = true
		}
	}
	return sf, ok
}

func (env *Env) specFunc0(name string) (*SpecFunc, bool) {
	if env.pkg != nil {
		if sf, ok := env.e.specs.SpecFuncs[env.pkg.Path()+"."+name]; ok {
			return sf, true
		}
	}
	if sf, ok := env.e.specs.SpecFuncs[name]; ok {
		return sf, true
	}
	// a package's spec function used from another package's contract (e.g. keystore using snacl's): unique suffix match
	var found *SpecFunc
	for k, sf := range env.e.specs.SpecFuncs {
		if strings.HasSuffix(k, "."+name) {
			if found != nil {
				return nil, false
			}
			found = sf
		}
	}
	return found, found != nil
}

// one constant per float literal (keyed by its exact text), so that equal literals are equal terms
func (e *Engine) floatConst(exact string) string {
	return e.sc.decl("fconst$"+exact, "Int")
}
