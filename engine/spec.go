package main

// Contract files: lines starting with "//@" (in /repo/**/zz_contracts_verif.go, package-relative
// names) or plain lines in /verif/contracts/ext/*.spec (full names, every block trusted).
//
//   func <name>
//     requires <expr>
//     ensures [label:] <expr>
//     modifies <target>{, <target>}
//     loop <key> invariant [label:] <expr>
//     loop <key> decreases <expr>
//     assert-at call <callee>[#k] [label:] <expr>
//     assert-at store <T.f> [label:] <expr>
//     assert-at return [label:] <expr>
//     attr <word>{, <word>}
//   type <T> guards f1, f2 by mu
//   spec func name(x T, ...) T [= expr]
//   axiom name: expr
//   ghost name sort-expr            (sort-expr: bool | int | map[int]bool | map[int]int)
//   const name = int

import (
	"bufio"
	"fmt"
	"os"
	"path/filepath"
	"strconv"
	"strings"
	"unicode"
)

type Clause struct {
	Kind  string // requires ensures modifies inv dec assert-at
	Label string
	Key   string // loop key or assert-at selector ("call X#k", "store T.f", "return")
	Src   string
	Expr  *Expr
	File  string
	Line  int
	// `assert-at call? X ...`: checked at every matching call site, but it is not an error when the code has none
	// (used where the clause speaks about a call the code may or may not repeat, e.g. a recomputed pure value)
	Optional bool
}

type FuncSpec struct {
	Name     string
	Pkg      string // package path for relative type resolution ("" for ext)
	Requires []*Clause
	Ensures  []*Clause
	Modifies []string
	HasMod   bool
	Loops    []*Clause
	Asserts  []*Clause
	Sets     []*Clause
	Assumes  []*Clause
	Attrs    map[string]bool
	Trusted  bool
	File     string
	Line     int
	Used     bool
}

type GuardSpec struct {
	Type   string // full type name pkg.T
	Fields []string
	Mu     string
	RW     bool
	Also   string // ghost bool: readers need mu or Also, writers need both
	Read, Write       *Expr
	ReadSrc, WriteSrc string
	Pkg               string
	Group             string
}

type LockInv struct {
	Type, Mu, Src, Pkg string
	Expr               *Expr
	Havocs             []string
}

type LockSet struct {
	Type  string
	Mu    string
	Ghost string
}

type SpecFunc struct {
	Name   string
	Params []SpecParam
	Ret    string
	Body   *Expr
	Src    string
	Pkg    string
}
type SpecParam struct{ Name, Type string }

type Axiom struct {
	Name string
	Expr *Expr
	Src  string
	Pkg  string
	File string
}

type GhostVar struct {
	Name string
	Sort string // SMT sort
	Go   string // go-ish type text
}

type SpecDB struct {
	Funcs     map[string]*FuncSpec
	Guards    []*GuardSpec
	LockSets  []*LockSet
	LockInvs  []*LockInv
	SpecFuncs map[string]*SpecFunc
	Axioms    []*Axiom
	Ghosts    map[string]*GhostVar
	Consts    map[string]string
	Files     []string
}

func NewSpecDB() *SpecDB {
	return &SpecDB{Funcs: map[string]*FuncSpec{}, SpecFuncs: map[string]*SpecFunc{}, Ghosts: map[string]*GhostVar{}, Consts: map[string]string{}}
}

func (db *SpecDB) LoadFile(path string, pkgPath string, trusted bool) error {
	f, err := os.Open(path)
	if err != nil {
		return err
	}
	defer f.Close()
	db.Files = append(db.Files, path)
	sc := bufio.NewScanner(f)
	sc.Buffer(make([]byte, 1<<20), 1<<20)
	var cur *FuncSpec
	ln := 0
	isGo := strings.HasSuffix(path, ".go")
	var pending string
	var pendingLine int
	flush := func() error { return nil }
	process := func(line string, ln int) error {
		line = strings.TrimSpace(line)
		if line == "" || strings.HasPrefix(line, "#") {
			return nil
		}
		word, rest := splitWord(line)
		fail := func(e error) error { return fmt.Errorf("%s:%d: %v (in %q)", path, ln, e, line) }
		switch word {
		case "func":
			name := strings.TrimSpace(rest)
			name = qualifyFuncName(name, pkgPath)
			if old, ok := db.Funcs[name]; ok {
				// blocks for the same function in several files are merged
				if old.Trusted != trusted {
					return fail(fmt.Errorf("contract for %s is both trusted and verified (first at %s:%d)", name, old.File, old.Line))
				}
				cur = old
			} else {
				cur = &FuncSpec{Name: name, Pkg: pkgPath, Attrs: map[string]bool{}, Trusted: trusted, File: path, Line: ln}
				db.Funcs[name] = cur
			}
		case "requires", "ensures":
			if cur == nil {
				return fail(fmt.Errorf("clause outside func"))
			}
			label, src := splitLabel(rest)
			ex, err := ParseExpr(src)
			if err != nil {
				return fail(err)
			}
			c := &Clause{Kind: word, Label: label, Src: src, Expr: ex, File: path, Line: ln}
			if word == "requires" {
				cur.Requires = append(cur.Requires, c)
			} else {
				cur.Ensures = append(cur.Ensures, c)
			}
		case "sets":
			// sets <ghost> = <expr> : definitional ghost update performed at every call (nothing to prove in the callee)
			if cur == nil {
				return fail(fmt.Errorf("clause outside func"))
			}
			parts := strings.SplitN(rest, "=", 2)
			if len(parts) != 2 {
				return fail(fmt.Errorf("sets needs <ghost> = <expr>"))
			}
			ex, err := ParseExpr(strings.TrimSpace(parts[1]))
			if err != nil {
				return fail(err)
			}
			cur.Sets = append(cur.Sets, &Clause{Kind: "sets", Key: strings.TrimSpace(parts[0]), Src: rest, Expr: ex, File: path, Line: ln})
		case "modifies":
			if cur == nil {
				return fail(fmt.Errorf("clause outside func"))
			}
			cur.HasMod = true
			for _, t := range splitTop(rest, ',') {
				t = strings.TrimSpace(t)
				if t != "" && t != "nothing" {
					cur.Modifies = append(cur.Modifies, t)
				}
			}
		case "loop":
			if cur == nil {
				return fail(fmt.Errorf("clause outside func"))
			}
			key, r2 := splitWord(rest)
			kind, r3 := splitWord(r2)
			switch kind {
			case "invariant":
				label, src := splitLabel(r3)
				ex, err := ParseExpr(src)
				if err != nil {
					return fail(err)
				}
				cur.Loops = append(cur.Loops, &Clause{Kind: "inv", Key: key, Label: label, Src: src, Expr: ex, File: path, Line: ln})
			case "decreases":
				ex, err := ParseExpr(r3)
				if err != nil {
					return fail(err)
				}
				cur.Loops = append(cur.Loops, &Clause{Kind: "dec", Key: key, Src: r3, Expr: ex, File: path, Line: ln})
			default:
				return fail(fmt.Errorf("loop clause must be invariant or decreases"))
			}
		case "assume-at":
			// assume-at call X#k label: expr  -- a rely condition assumed after that call (listed as an assumption)
			if cur == nil {
				return fail(fmt.Errorf("clause outside func"))
			}
			kind, r2 := splitWord(rest)
			if kind != "call" {
				return fail(fmt.Errorf("assume-at supports only call sites"))
			}
			sel, r3 := splitWord(r2)
			label, src := splitLabel(r3)
			ex, err := ParseExpr(src)
			if err != nil {
				return fail(err)
			}
			cur.Assumes = append(cur.Assumes, &Clause{Kind: "assume-at", Key: "call " + sel, Label: label, Src: src, Expr: ex, File: path, Line: ln})
		case "assert-at":
			if cur == nil {
				return fail(fmt.Errorf("clause outside func"))
			}
			kind, r2 := splitWord(rest)
			optional := false
			if kind == "call?" {
				kind, optional = "call", true
			}
			if kind == "store?" {
				// checked at every matching store; with the formula `false` this forbids such stores
				kind, optional = "store", true
			}
			key := kind
			r3 := r2
			if kind == "call" || kind == "store" || kind == "join" {
				sel, r := splitWord(r2)
				key = kind + " " + sel
				r3 = r
			}
			label, src := splitLabel(r3)
			ex, err := ParseExpr(src)
			if err != nil {
				return fail(err)
			}
			cur.Asserts = append(cur.Asserts, &Clause{Kind: "assert-at", Key: key, Label: label, Src: src, Expr: ex, File: path, Line: ln, Optional: optional})
		case "attr":
			if cur == nil {
				return fail(fmt.Errorf("clause outside func"))
			}
			for _, t := range strings.Split(rest, ",") {
				t = strings.TrimSpace(t)
				if t != "" {
					cur.Attrs[t] = true
					if t == "trusted" {
						cur.Trusted = true
					}
				}
			}
		case "type":
			// type T guards f1, f2 by mu [rw]
			parts := strings.Fields(strings.ReplaceAll(rest, ",", " "))
			if len(parts) >= 5 && parts[1] == "lock" && parts[3] == "invariant" {
				// type T lock mu invariant <expr> havocs c1, c2, ...
				hi := strings.Index(rest, " havocs ")
				ii := strings.Index(rest, " invariant ")
				if hi < 0 || ii < 0 || hi < ii {
					return fail(fmt.Errorf("lock invariant needs: invariant <expr> havocs <list>"))
				}
				src := strings.TrimSpace(rest[ii+11 : hi])
				ex, err := ParseExpr(src)
				if err != nil {
					return fail(err)
				}
				li := &LockInv{Type: qualifyTypeName(parts[0], pkgPath), Mu: parts[2], Src: src, Expr: ex, Pkg: pkgPath}
				for _, h := range strings.Split(rest[hi+8:], ",") {
					if h = strings.TrimSpace(h); h != "" {
						li.Havocs = append(li.Havocs, h)
					}
				}
				db.LockInvs = append(db.LockInvs, li)
				cur = nil
				return nil
			}
			if len(parts) == 5 && parts[1] == "lock" && parts[3] == "sets" {
				db.LockSets = append(db.LockSets, &LockSet{Type: qualifyTypeName(parts[0], pkgPath), Mu: parts[2], Ghost: parts[4]})
				cur = nil
				return nil
			}
			if len(parts) >= 2 && parts[1] == "protects" {
				// type T protects f1, f2 reads <expr> writes <expr>
				ri := strings.Index(rest, " reads ")
				wi := strings.Index(rest, " writes ")
				if ri < 0 || wi < ri {
					return fail(fmt.Errorf("protects needs reads <expr> writes <expr>"))
				}
				head := strings.Fields(strings.ReplaceAll(rest[:ri], ",", " "))
				g := &GuardSpec{Type: qualifyTypeName(head[0], pkgPath), Pkg: pkgPath, Group: "lock"}
				for k := 2; k < len(head); k++ {
					if head[k] == "group" && k+1 < len(head) {
						g.Group = head[k+1]
						k++
						continue
					}
					g.Fields = append(g.Fields, head[k])
				}
				var err error
				g.ReadSrc = strings.TrimSpace(rest[ri+7 : wi])
				g.WriteSrc = strings.TrimSpace(rest[wi+8:])
				if g.Read, err = ParseExpr(g.ReadSrc); err != nil {
					return fail(err)
				}
				if g.Write, err = ParseExpr(g.WriteSrc); err != nil {
					return fail(err)
				}
				db.Guards = append(db.Guards, g)
				cur = nil
				return nil
			}
			if len(parts) < 5 || parts[1] != "guards" {
				return fail(fmt.Errorf("bad type clause"))
			}
			g := &GuardSpec{Type: qualifyTypeName(parts[0], pkgPath)}
			i := 2
			for ; i < len(parts) && parts[i] != "by"; i++ {
				g.Fields = append(g.Fields, parts[i])
			}
			if i+1 >= len(parts) {
				return fail(fmt.Errorf("bad type clause: missing by"))
			}
			g.Mu = parts[i+1]
			for k := i + 2; k < len(parts); k++ {
				if parts[k] == "rw" {
					g.RW = true
				}
				if parts[k] == "also" && k+1 < len(parts) {
					g.Also = parts[k+1]
				}
			}
			db.Guards = append(db.Guards, g)
			cur = nil
		case "spec":
			// spec func name(x T, y T) T [= expr]
			w2, r2 := splitWord(rest)
			if w2 != "func" {
				return fail(fmt.Errorf("expected spec func"))
			}
			sf, err := parseSpecFunc(r2)
			if err != nil {
				return fail(err)
			}
			sf.Pkg = pkgPath
			key := sf.Name
			if pkgPath != "" {
				key = pkgPath + "." + sf.Name // spec functions of a package's contract file are local to that package
			}
			if _, ok := db.SpecFuncs[key]; ok {
				return fail(fmt.Errorf("duplicate spec func %s", sf.Name))
			}
			db.SpecFuncs[key] = sf
			cur = nil
		case "axiom":
			label, src := splitLabel(rest)
			ex, err := ParseExpr(src)
			if err != nil {
				return fail(err)
			}
			db.Axioms = append(db.Axioms, &Axiom{Name: label, Expr: ex, Src: src, Pkg: pkgPath, File: path})
			cur = nil
		case "ghost":
			name, r2 := splitWord(rest)
			srt, err := ghostSort(strings.TrimSpace(r2))
			if err != nil {
				return fail(err)
			}
			if old, ok := db.Ghosts[name]; ok && old.Sort != srt {
				return fail(fmt.Errorf("ghost %s declared with two sorts", name))
			}
			db.Ghosts[name] = &GhostVar{Name: name, Sort: srt, Go: strings.TrimSpace(r2)}
			cur = nil
		case "const":
			parts := strings.SplitN(rest, "=", 2)
			if len(parts) != 2 {
				return fail(fmt.Errorf("bad const"))
			}
			db.Consts[strings.TrimSpace(parts[0])] = strings.TrimSpace(parts[1])
			cur = nil
		default:
			return fail(fmt.Errorf("unknown clause %q", word))
		}
		return nil
	}
	_ = flush
	for sc.Scan() {
		ln++
		line := sc.Text()
		if isGo {
			t := strings.TrimSpace(line)
			if !strings.HasPrefix(t, "//@") {
				if pending != "" {
					if err := process(pending, pendingLine); err != nil {
						return err
					}
					pending = ""
				}
				continue
			}
			line = strings.TrimPrefix(t, "//@")
		} else {
			if i := strings.Index(line, "//"); i >= 0 && !strings.Contains(line[:i], "\"") {
				line = line[:i]
			}
		}
		// continuation: a line whose content starts with "\" continues the previous clause
		tl := strings.TrimSpace(line)
		if strings.HasPrefix(tl, "\\") {
			pending += " " + strings.TrimSpace(tl[1:])
			continue
		}
		if pending != "" {
			if err := process(pending, pendingLine); err != nil {
				return err
			}
		}
		pending = line
		pendingLine = ln
	}
	if pending != "" {
		if err := process(pending, pendingLine); err != nil {
			return err
		}
	}
	return sc.Err()
}

func (db *SpecDB) LoadExtDir(dir string) error {
	files, _ := filepath.Glob(filepath.Join(dir, "*.spec"))
	for _, f := range files {
		if err := db.LoadFile(f, "", true); err != nil {
			return err
		}
	}
	return nil
}

func ghostSort(s string) (string, error) {
	switch s {
	case "bool":
		return "Bool", nil
	case "int":
		return "Int", nil
	case "map[int]bool":
		return "(Array Int Bool)", nil
	case "map[int]int":
		return "(Array Int Int)", nil
	case "map[int]map[int]bool":
		return "(Array Int (Array Int Bool))", nil
	case "map[int]map[int]int":
		return "(Array Int (Array Int Int))", nil
	}
	return "", fmt.Errorf("unsupported ghost sort %q", s)
}

func splitWord(s string) (string, string) {
	s = strings.TrimSpace(s)
	i := strings.IndexFunc(s, unicode.IsSpace)
	if i < 0 {
		return s, ""
	}
	return s[:i], strings.TrimSpace(s[i:])
}

// label: optional "name:" prefix where name is [A-Za-z0-9_.\-\[\]]+ and is followed by ": " (not "::")
func splitLabel(s string) (string, string) {
	s = strings.TrimSpace(s)
	for i, r := range s {
		if r == ':' {
			if i+1 < len(s) && s[i+1] == ':' {
				return "", s
			}
			if i == 0 {
				return "", s
			}
			return s[:i], strings.TrimSpace(s[i+1:])
		}
		if !(unicode.IsLetter(r) || unicode.IsDigit(r) || r == '_' || r == '-' || r == '.' || r == '[' || r == ']' || r == '$') {
			return "", s
		}
	}
	return "", s
}

func splitTop(s string, sep rune) []string {
	var out []string
	depth := 0
	start := 0
	for i, r := range s {
		switch r {
		case '(', '[':
			depth++
		case ')', ']':
			depth--
		default:
			if r == sep && depth == 0 {
				out = append(out, s[start:i])
				start = i + 1
			}
		}
	}
	out = append(out, s[start:])
	return out
}

func qualifyFuncName(name, pkg string) string {
	if pkg == "" {
		return name
	}
	if strings.HasPrefix(name, "(") {
		// (*T).M or (T).M
		i := strings.Index(name, ")")
		if i < 0 {
			return name
		}
		recv := name[1:i]
		star := ""
		if strings.HasPrefix(recv, "*") {
			star = "*"
			recv = recv[1:]
		}
		if !strings.Contains(recv, ".") && !strings.Contains(recv, "/") {
			recv = pkg + "." + recv
		}
		return "(" + star + recv + ")" + name[i+1:]
	}
	if strings.Contains(name, "/") || strings.Contains(strings.SplitN(name, "$", 2)[0], ".") {
		return name
	}
	return pkg + "." + name
}

func qualifyTypeName(name, pkg string) string {
	if pkg == "" || strings.Contains(name, ".") {
		return name
	}
	return pkg + "." + name
}

func parseSpecFunc(s string) (*SpecFunc, error) {
	i := strings.Index(s, "(")
	if i < 0 {
		return nil, fmt.Errorf("spec func: missing (")
	}
	name := strings.TrimSpace(s[:i])
	depth := 0
	j := -1
	for k := i; k < len(s); k++ {
		if s[k] == '(' {
			depth++
		} else if s[k] == ')' {
			depth--
			if depth == 0 {
				j = k
				break
			}
		}
	}
	if j < 0 {
		return nil, fmt.Errorf("spec func: missing )")
	}
	sf := &SpecFunc{Name: name, Src: s}
	ps := strings.TrimSpace(s[i+1 : j])
	if ps != "" {
		for _, p := range splitTop(ps, ',') {
			n, t := splitWord(p)
			if t == "" {
				return nil, fmt.Errorf("spec func param needs name and type: %q", p)
			}
			sf.Params = append(sf.Params, SpecParam{n, t})
		}
	}
	rest := strings.TrimSpace(s[j+1:])
	if k := strings.Index(rest, "="); k >= 0 && !strings.HasPrefix(rest[k:], "==") {
		sf.Ret = strings.TrimSpace(rest[:k])
		ex, err := ParseExpr(strings.TrimSpace(rest[k+1:]))
		if err != nil {
			return nil, err
		}
		sf.Body = ex
	} else {
		sf.Ret = rest
	}
	if sf.Ret == "" {
		return nil, fmt.Errorf("spec func needs result type")
	}
	return sf, nil
}

// ---------------------------------------------------------------- expressions

type Expr struct {
	Op   string // ident int str char call sel index slice unary binary forall exists old result hash
	Name string
	Args []*Expr
	Vars []SpecParam // quantifier vars
	Pos  int
}

func (e *Expr) String() string {
	switch e.Op {
	case "ident", "int", "hash":
		return e.Name
	case "str":
		return strconv.Quote(e.Name)
	case "sel":
		return e.Args[0].String() + "." + e.Name
	case "index":
		return e.Args[0].String() + "[" + e.Args[1].String() + "]"
	case "call":
		var a []string
		for _, x := range e.Args {
			a = append(a, x.String())
		}
		return e.Name + "(" + strings.Join(a, ", ") + ")"
	case "unary":
		return e.Name + e.Args[0].String()
	case "binary":
		return "(" + e.Args[0].String() + " " + e.Name + " " + e.Args[1].String() + ")"
	case "forall", "exists":
		var v []string
		for _, x := range e.Vars {
			v = append(v, x.Name+" "+x.Type)
		}
		return e.Op + " " + strings.Join(v, ", ") + " :: " + e.Args[0].String()
	}
	return e.Op
}

type tok struct {
	k   string // id int str char op eof
	s   string
	pos int
}

type parser struct {
	toks []tok
	i    int
	src  string
}

func lex(s string) ([]tok, error) {
	var out []tok
	i := 0
	ops := []string{"<==>", "==>", "::", "&&", "||", "==", "!=", "<=", ">=", "<<", ">>", "&^"}
	for i < len(s) {
		c := s[i]
		if c == ' ' || c == '\t' {
			i++
			continue
		}
		if unicode.IsLetter(rune(c)) || c == '_' {
			j := i
			for j < len(s) && (unicode.IsLetter(rune(s[j])) || unicode.IsDigit(rune(s[j])) || s[j] == '_' || s[j] == '$') {
				j++
			}
			out = append(out, tok{"id", s[i:j], i})
			i = j
			continue
		}
		if c == '#' {
			j := i + 1
			for j < len(s) && (unicode.IsLetter(rune(s[j])) || unicode.IsDigit(rune(s[j])) || s[j] == '_') {
				j++
			}
			out = append(out, tok{"hash", s[i:j], i})
			i = j
			continue
		}
		if unicode.IsDigit(rune(c)) {
			j := i
			for j < len(s) && (unicode.IsDigit(rune(s[j])) || s[j] == 'x' || s[j] == 'X' || (s[j] >= 'a' && s[j] <= 'f') || (s[j] >= 'A' && s[j] <= 'F') || s[j] == '_') {
				j++
			}
			out = append(out, tok{"int", s[i:j], i})
			i = j
			continue
		}
		if c == '"' {
			j := i + 1
			for j < len(s) && s[j] != '"' {
				if s[j] == '\\' {
					j++
				}
				j++
			}
			if j >= len(s) {
				return nil, fmt.Errorf("unterminated string")
			}
			v, err := strconv.Unquote(s[i : j+1])
			if err != nil {
				return nil, err
			}
			out = append(out, tok{"str", v, i})
			i = j + 1
			continue
		}
		if c == '\'' {
			j := i + 1
			for j < len(s) && s[j] != '\'' {
				if s[j] == '\\' {
					j++
				}
				j++
			}
			if j >= len(s) {
				return nil, fmt.Errorf("unterminated char")
			}
			v, _, _, err := strconv.UnquoteChar(s[i+1:j], '\'')
			if err != nil {
				return nil, err
			}
			out = append(out, tok{"int", strconv.Itoa(int(v)), i})
			i = j + 1
			continue
		}
		matched := false
		for _, op := range ops {
			if strings.HasPrefix(s[i:], op) {
				out = append(out, tok{"op", op, i})
				i += len(op)
				matched = true
				break
			}
		}
		if matched {
			continue
		}
		if strings.ContainsRune("+-*/%<>!()[],.:&|^", rune(c)) {
			out = append(out, tok{"op", string(c), i})
			i++
			continue
		}
		return nil, fmt.Errorf("unexpected character %q at %d", c, i)
	}
	out = append(out, tok{"eof", "", len(s)})
	return out, nil
}

func ParseExpr(s string) (*Expr, error) {
	toks, err := lex(s)
	if err != nil {
		return nil, err
	}
	p := &parser{toks: toks, src: s}
	e, err := p.parseQuant()
	if err != nil {
		return nil, err
	}
	if p.peek().k != "eof" {
		return nil, fmt.Errorf("unexpected %q at %d", p.peek().s, p.peek().pos)
	}
	return e, nil
}

func (p *parser) peek() tok { return p.toks[p.i] }
func (p *parser) next() tok { t := p.toks[p.i]; p.i++; return t }
func (p *parser) isOp(s string) bool {
	t := p.peek()
	return t.k == "op" && t.s == s
}
func (p *parser) expectOp(s string) error {
	if !p.isOp(s) {
		return fmt.Errorf("expected %q at %d, got %q", s, p.peek().pos, p.peek().s)
	}
	p.i++
	return nil
}

func (p *parser) parseQuant() (*Expr, error) {
	t := p.peek()
	isQuant := false
	if t.k == "id" && (t.s == "forall" || t.s == "exists") {
		// a Go variable may be called `exists`: it is a quantifier only if a `::` follows at this nesting level
		depth := 0
		for j := p.i + 1; j < len(p.toks); j++ {
			q := p.toks[j]
			if q.k == "op" && (q.s == "(" || q.s == "[") {
				depth++
			} else if q.k == "op" && (q.s == ")" || q.s == "]") {
				depth--
				if depth < 0 {
					break
				}
			} else if q.k == "op" && q.s == "::" && depth == 0 {
				isQuant = true
				break
			} else if q.k == "op" && (q.s == "&&" || q.s == "||" || q.s == "==>") && depth == 0 {
				break
			}
		}
	}
	if isQuant {
		p.next()
		var vars []SpecParam
		for {
			n := p.next()
			if n.k != "id" {
				return nil, fmt.Errorf("quantifier: expected variable name at %d", n.pos)
			}
			// type: tokens until ',' or '::'
			start := p.peek().pos
			end := start
			depth := 0
			for {
				q := p.peek()
				if q.k == "eof" {
					return nil, fmt.Errorf("quantifier: missing ::")
				}
				if depth == 0 && q.k == "op" && (q.s == "," || q.s == "::") {
					end = q.pos
					break
				}
				if q.k == "op" && (q.s == "[" || q.s == "(") {
					depth++
				}
				if q.k == "op" && (q.s == "]" || q.s == ")") {
					depth--
				}
				p.next()
			}
			vars = append(vars, SpecParam{n.s, strings.TrimSpace(p.src[start:end])})
			if p.isOp(",") {
				p.next()
				continue
			}
			break
		}
		if err := p.expectOp("::"); err != nil {
			return nil, err
		}
		body, err := p.parseQuant()
		if err != nil {
			return nil, err
		}
		return &Expr{Op: t.s, Vars: vars, Args: []*Expr{body}, Pos: t.pos}, nil
	}
	return p.parseBin(0)
}

var binPrec = []([]string){
	{"<==>"},
	{"==>"},
	{"||"},
	{"&&"},
	{"==", "!=", "<", "<=", ">", ">="},
	{"+", "-", "|", "^"},
	{"*", "/", "%", "<<", ">>", "&", "&^"},
}

func (p *parser) parseBin(level int) (*Expr, error) {
	if level >= len(binPrec) {
		return p.parseUnary()
	}
	lhs, err := p.parseBin(level + 1)
	if err != nil {
		return nil, err
	}
	for {
		t := p.peek()
		if t.k != "op" {
			return lhs, nil
		}
		found := false
		for _, o := range binPrec[level] {
			if o == t.s {
				found = true
			}
		}
		if !found {
			return lhs, nil
		}
		p.next()
		var rhs *Expr
		if t.s == "==>" {
			// right assoc, and allow a quantifier on the rhs
			if q := p.peek(); q.k == "id" && (q.s == "forall" || q.s == "exists") && p.quantAhead() {
				rhs, err = p.parseQuant()
			} else {
				rhs, err = p.parseBin(level)
			}
		} else {
			if q := p.peek(); q.k == "id" && (q.s == "forall" || q.s == "exists") && p.quantAhead() {
				rhs, err = p.parseQuant()
			} else {
				rhs, err = p.parseBin(level + 1)
			}
		}
		if err != nil {
			return nil, err
		}
		lhs = &Expr{Op: "binary", Name: t.s, Args: []*Expr{lhs, rhs}, Pos: t.pos}
		if t.s == "==>" {
			return lhs, nil
		}
	}
}

func (p *parser) parseUnary() (*Expr, error) {
	t := p.peek()
	if t.k == "op" && (t.s == "!" || t.s == "-") {
		p.next()
		x, err := p.parseUnary()
		if err != nil {
			return nil, err
		}
		return &Expr{Op: "unary", Name: t.s, Args: []*Expr{x}, Pos: t.pos}, nil
	}
	return p.parsePostfix()
}

func (p *parser) parsePostfix() (*Expr, error) {
	x, err := p.parsePrimary()
	if err != nil {
		return nil, err
	}
	for {
		t := p.peek()
		if t.k != "op" {
			return x, nil
		}
		switch t.s {
		case ".":
			p.next()
			n := p.next()
			if n.k != "id" {
				return nil, fmt.Errorf("expected field name at %d", n.pos)
			}
			x = &Expr{Op: "sel", Name: n.s, Args: []*Expr{x}, Pos: t.pos}
		case "[":
			p.next()
			var lo, hi *Expr
			if !p.isOp(":") {
				lo, err = p.parseQuant()
				if err != nil {
					return nil, err
				}
			}
			if p.isOp(":") {
				p.next()
				if !p.isOp("]") {
					hi, err = p.parseQuant()
					if err != nil {
						return nil, err
					}
				}
				if err := p.expectOp("]"); err != nil {
					return nil, err
				}
				x = &Expr{Op: "slice", Args: []*Expr{x, lo, hi}, Pos: t.pos}
			} else {
				if err := p.expectOp("]"); err != nil {
					return nil, err
				}
				x = &Expr{Op: "index", Args: []*Expr{x, lo}, Pos: t.pos}
			}
		case "(":
			// call on identifier or selector (pkg.Func)
			name := ""
			if x.Op == "ident" {
				name = x.Name
			} else if x.Op == "sel" && x.Args[0].Op == "ident" {
				name = x.Args[0].Name + "." + x.Name
			} else {
				return nil, fmt.Errorf("call of non-identifier at %d", t.pos)
			}
			p.next()
			var args []*Expr
			for !p.isOp(")") {
				a, err := p.parseQuant()
				if err != nil {
					return nil, err
				}
				args = append(args, a)
				if p.isOp(",") {
					p.next()
				} else {
					break
				}
			}
			if err := p.expectOp(")"); err != nil {
				return nil, err
			}
			x = &Expr{Op: "call", Name: name, Args: args, Pos: t.pos}
		default:
			return x, nil
		}
	}
}

func (p *parser) parsePrimary() (*Expr, error) {
	t := p.next()
	switch t.k {
	case "id":
		return &Expr{Op: "ident", Name: t.s, Pos: t.pos}, nil
	case "hash":
		return &Expr{Op: "hash", Name: t.s, Pos: t.pos}, nil
	case "int":
		s := strings.ReplaceAll(t.s, "_", "")
		v, err := strconv.ParseUint(s, 0, 64)
		if err != nil {
			// maybe huge decimal
			for _, r := range s {
				if !unicode.IsDigit(r) {
					return nil, fmt.Errorf("bad integer %q", t.s)
				}
			}
			return &Expr{Op: "int", Name: s, Pos: t.pos}, nil
		}
		return &Expr{Op: "int", Name: strconv.FormatUint(v, 10), Pos: t.pos}, nil
	case "str":
		return &Expr{Op: "str", Name: t.s, Pos: t.pos}, nil
	case "op":
		if t.s == "(" {
			e, err := p.parseQuant()
			if err != nil {
				return nil, err
			}
			if err := p.expectOp(")"); err != nil {
				return nil, err
			}
			return e, nil
		}
	}
	return nil, fmt.Errorf("unexpected %q at %d", t.s, t.pos)
}

func (p *parser) quantAhead() bool {
	depth := 0
	for j := p.i + 1; j < len(p.toks); j++ {
		q := p.toks[j]
		if q.k == "op" && (q.s == "(" || q.s == "[") {
			depth++
		} else if q.k == "op" && (q.s == ")" || q.s == "]") {
			depth--
			if depth < 0 {
				return false
			}
		} else if q.k == "op" && q.s == "::" && depth == 0 {
			return true
		} else if q.k == "op" && (q.s == "&&" || q.s == "||" || q.s == "==>") && depth == 0 {
			return false
		}
	}
	return false
}
