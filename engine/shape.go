package main

// Alpha-renaming of contracts.
//
// Contracts name local variables of the function they annotate (loop keys, assert-at clauses, invariants). A change
// that only renames locals or parameters leaves the function's behaviour exactly as it was, so it must not raise an
// alarm. For every function under contract the committed baseline (/verif/baseline/shapes.json) records
//   - a hash of the function's SSA with every source-level name removed (the "shape"), and
//   - the source names in the order in which they occur in that SSA.
// At check time the shape of the current function is recomputed. If it equals the baseline shape, the current function
// is the baseline function up to the names of its locals, and the positional correspondence of the two name lists is
// the renaming; the contract's identifiers are transported along it and the function is then verified as usual, on
// the current code. If the shape differs in any way nothing is renamed and the contract is used as written.

import (
	"crypto/sha256"
	"encoding/hex"
	"encoding/json"
	"fmt"
	"go/ast"
	"go/types"
	"os"
	"sort"
	"strings"

	"golang.org/x/tools/go/ssa"
)

type shapeEntry struct {
	Hash  string   `json:"hash"`
	Names []string `json:"names"`
}

func funcShape(fn *ssa.Function) shapeEntry {
	var sb strings.Builder
	var names []string
	var walk func(f *ssa.Function, depth int)
	walk = func(f *ssa.Function, depth int) {
		ids := map[ssa.Value]string{}
		fmt.Fprintf(&sb, "func depth=%d sig=%s\n", depth, sigNoNames(f))
		for i, p := range f.Params {
			ids[p] = fmt.Sprintf("P%d", i)
			names = append(names, p.Name())
		}
		for i, p := range f.FreeVars {
			ids[p] = fmt.Sprintf("F%d", i)
			fmt.Fprintf(&sb, "freevar %s\n", typeNoNames(p.Type()))
			names = append(names, p.Name())
		}
		for bi, b := range f.Blocks {
			for ii, in := range b.Instrs {
				if v, ok := in.(ssa.Value); ok {
					ids[v] = fmt.Sprintf("v%d.%d", bi, ii)
				}
			}
		}
		opid := func(v ssa.Value) string {
			if v == nil {
				return "_"
			}
			if s, ok := ids[v]; ok {
				return s
			}
			switch x := v.(type) {
			case *ssa.Const:
				return "const:" + x.String()
			case *ssa.Global:
				return "global:" + x.String()
			case *ssa.Function:
				if x.Parent() != nil {
					// closures are numbered by position in their parent
					for k, a := range x.Parent().AnonFuncs {
						if a == x {
							return fmt.Sprintf("anon%d", k)
						}
					}
				}
				return "func:" + x.String()
			case *ssa.Builtin:
				return "builtin:" + x.Name()
			}
			// value of an enclosing function (cannot happen in SSA form, free variables are explicit)
			return "outer:" + typeNoNames(v.Type())
		}
		for bi, b := range f.Blocks {
			var succ []string
			for _, s := range b.Succs {
				succ = append(succ, fmt.Sprint(s.Index))
			}
			fmt.Fprintf(&sb, "block %d -> %s\n", bi, strings.Join(succ, ","))
			for _, in := range b.Instrs {
				fmt.Fprintf(&sb, " %T", in)
				if v, ok := in.(ssa.Value); ok {
					fmt.Fprintf(&sb, " :%s", typeNoNames(v.Type()))
				}
				switch x := in.(type) {
				case *ssa.Alloc:
					fmt.Fprintf(&sb, " heap=%v", x.Heap)
					names = append(names, x.Comment)
				case *ssa.Phi:
					names = append(names, x.Comment)
				case *ssa.DebugRef:
					fmt.Fprintf(&sb, " addr=%v", x.IsAddr)
					// only identifiers that denote local variables (fields, functions and package-level
					// names keep their identity and are part of the shape through the operands)
					nm := ""
					if id, ok := x.Expr.(*ast.Ident); ok {
						if v, ok := x.Object().(*types.Var); ok && !v.IsField() && v.Pkg() != nil && v.Parent() != v.Pkg().Scope() {
							nm = id.Name
						}
					}
					names = append(names, nm)
				case *ssa.BinOp:
					fmt.Fprintf(&sb, " op=%s", x.Op)
				case *ssa.UnOp:
					fmt.Fprintf(&sb, " op=%s commaok=%v", x.Op, x.CommaOk)
				case *ssa.FieldAddr:
					fmt.Fprintf(&sb, " field=%d", x.Field)
				case *ssa.Field:
					fmt.Fprintf(&sb, " field=%d", x.Field)
				case *ssa.TypeAssert:
					fmt.Fprintf(&sb, " to=%s commaok=%v", typeNoNames(x.AssertedType), x.CommaOk)
				case *ssa.Extract:
					fmt.Fprintf(&sb, " index=%d", x.Index)
				case *ssa.Lookup:
					fmt.Fprintf(&sb, " commaok=%v", x.CommaOk)
				case *ssa.Next:
					fmt.Fprintf(&sb, " string=%v", x.IsString)
				case *ssa.Select:
					fmt.Fprintf(&sb, " blocking=%v", x.Blocking)
					for _, st := range x.States {
						fmt.Fprintf(&sb, " dir=%d", st.Dir)
					}
				}
				if c, ok := in.(ssa.CallInstruction); ok {
					cc := c.Common()
					if cc.IsInvoke() {
						fmt.Fprintf(&sb, " invoke=%s", cc.Method.FullName())
					}
				}
				for _, op := range in.Operands(nil) {
					fmt.Fprintf(&sb, " %s", opid(*op))
				}
				sb.WriteByte('\n')
			}
		}
		for _, a := range f.AnonFuncs {
			walk(a, depth+1)
		}
	}
	walk(fn, 0)
	if d := os.Getenv("GOVC_SHAPE_DUMP"); d != "" && strings.Contains(fn.String(), d) {
		os.WriteFile(os.Getenv("GOVC_SHAPE_OUT"), []byte(sb.String()), 0644)
	}
	h := sha256.Sum256([]byte(sb.String()))
	return shapeEntry{Hash: hex.EncodeToString(h[:]), Names: names}
}

// type text without the parameter and result names of function types (those are local names)
func typeNoNames(t types.Type) string {
	switch x := t.(type) {
	case *types.Signature:
		var ps, rs []string
		for i := 0; i < x.Params().Len(); i++ {
			ps = append(ps, typeNoNames(x.Params().At(i).Type()))
		}
		for i := 0; i < x.Results().Len(); i++ {
			rs = append(rs, typeNoNames(x.Results().At(i).Type()))
		}
		return fmt.Sprintf("func(%s)(%s)variadic=%v", strings.Join(ps, ","), strings.Join(rs, ","), x.Variadic())
	case *types.Pointer:
		return "*" + typeNoNames(x.Elem())
	case *types.Slice:
		return "[]" + typeNoNames(x.Elem())
	case *types.Array:
		return fmt.Sprintf("[%d]%s", x.Len(), typeNoNames(x.Elem()))
	case *types.Map:
		return "map[" + typeNoNames(x.Key()) + "]" + typeNoNames(x.Elem())
	case *types.Chan:
		return fmt.Sprintf("chan%d %s", x.Dir(), typeNoNames(x.Elem()))
	case *types.Tuple:
		var es []string
		for i := 0; i < x.Len(); i++ {
			es = append(es, typeNoNames(x.At(i).Type()))
		}
		return "(" + strings.Join(es, ",") + ")"
	}
	return t.String()
}

// signature text without parameter or result names
func sigNoNames(f *ssa.Function) string {
	sig := f.Signature
	var ps, rs []string
	for i := 0; i < sig.Params().Len(); i++ {
		ps = append(ps, typeNoNames(sig.Params().At(i).Type()))
	}
	for i := 0; i < sig.Results().Len(); i++ {
		rs = append(rs, typeNoNames(sig.Results().At(i).Type()))
	}
	recv := ""
	if sig.Recv() != nil {
		recv = typeNoNames(sig.Recv().Type())
	}
	return fmt.Sprintf("(%s)(%s)(%s)variadic=%v", recv, strings.Join(ps, ","), strings.Join(rs, ","), sig.Variadic())
}

const shapesFile = "/verif/baseline/shapes.json"

func loadShapes() map[string]shapeEntry {
	m := map[string]shapeEntry{}
	b, err := os.ReadFile(shapesFile)
	if err != nil {
		return m
	}
	json.Unmarshal(b, &m)
	return m
}

// contractRoot maps a spec'd function to the outermost enclosing function (closures are shaped with their parent)
func rootOf(fn *ssa.Function) *ssa.Function {
	for fn.Parent() != nil {
		fn = fn.Parent()
	}
	return fn
}

// applyRenames transports contract identifiers along local renamings; it returns a note per renamed function.
func (sh *Shared) applyRenames() []string {
	base := loadShapes()
	var notes []string
	done := map[string]map[string]string{}
	var keys []string
	for name := range sh.specs.Funcs {
		keys = append(keys, name)
	}
	sort.Strings(keys)
	for _, name := range keys {
		sp := sh.specs.Funcs[name]
		fn := sh.funcs[name]
		if fn == nil || len(fn.Blocks) == 0 || sp.Trusted {
			continue
		}
		root := rootOf(fn)
		rn, seen := done[root.String()]
		if !seen {
			rn = nil
			if be, ok := base[root.String()]; ok {
				cur := funcShape(root)
				if cur.Hash == be.Hash && len(cur.Names) == len(be.Names) {
					m := map[string]string{}
					bad := map[string]bool{}
					for i := range cur.Names {
						o, n := be.Names[i], cur.Names[i]
						if o == "" || n == "" {
							continue
						}
						if prev, ok := m[o]; ok && prev != n {
							bad[o] = true
						}
						m[o] = n
					}
					for o, n := range m {
						if o == n || bad[o] {
							delete(m, o)
						}
					}
					if len(m) > 0 {
						rn = m
					}
				}
			}
			done[root.String()] = rn
		}
		if rn == nil {
			continue
		}
		if renameSpec(sp, rn) {
			var pairs []string
			for o, n := range rn {
				pairs = append(pairs, o+"->"+n)
			}
			sort.Strings(pairs)
			notes = append(notes, fmt.Sprintf("%s: same code as the baseline up to local names; contract identifiers follow the renaming %s", name, strings.Join(pairs, " ")))
		}
	}
	return notes
}

func renameSpec(sp *FuncSpec, rn map[string]string) bool {
	changed := false
	do := func(cs []*Clause) {
		for _, c := range cs {
			if c.Expr != nil {
				ne := renameExpr(c.Expr, rn, nil)
				if ne != c.Expr {
					c.Expr = ne
					changed = true
				}
			}
			if c.Key != "" {
				if nk := renameKey(c.Key, rn); nk != c.Key {
					c.Key = nk
					changed = true
				}
			}
		}
	}
	do(sp.Requires)
	do(sp.Ensures)
	do(sp.Loops)
	do(sp.Asserts)
	do(sp.Sets)
	do(sp.Assumes)
	return changed
}

// keys: "<var>" (loop), "join <var>", "call var.<name>[#k]"; everything else names callees, types or ordinals
func renameKey(k string, rn map[string]string) string {
	if n, ok := rn[k]; ok {
		return n
	}
	if strings.HasPrefix(k, "join ") {
		if n, ok := rn[strings.TrimPrefix(k, "join ")]; ok {
			return "join " + n
		}
	}
	if i := strings.Index(k, "var."); i >= 0 {
		rest := k[i+4:]
		end := len(rest)
		for j, r := range rest {
			if !(r == '_' || r >= '0' && r <= '9' || r >= 'a' && r <= 'z' || r >= 'A' && r <= 'Z') {
				end = j
				break
			}
		}
		if n, ok := rn[rest[:end]]; ok {
			return k[:i+4] + n + rest[end:]
		}
	}
	return k
}

// renameExpr returns e itself when nothing changes
func renameExpr(e *Expr, rn map[string]string, bound map[string]bool) *Expr {
	if e == nil {
		return nil
	}
	switch e.Op {
	case "ident":
		if n, ok := rn[e.Name]; ok && !bound[e.Name] {
			c := *e
			c.Name = n
			return &c
		}
		return e
	case "forall", "exists":
		nb := map[string]bool{}
		for k := range bound {
			nb[k] = true
		}
		for _, v := range e.Vars {
			nb[v.Name] = true
		}
		bound = nb
	case "call":
		// lastresult("var.name") and call names that address a local func variable
		if strings.HasPrefix(e.Name, "var.") {
			if n, ok := rn[strings.TrimPrefix(e.Name, "var.")]; ok {
				c := *e
				c.Name = "var." + n
				e = &c
			}
		}
	case "str":
		if strings.HasPrefix(e.Name, "var.") {
			if nk := renameKey(e.Name, rn); nk != e.Name {
				c := *e
				c.Name = nk
				return &c
			}
		}
		return e
	}
	var args []*Expr
	diff := false
	for _, a := range e.Args {
		na := renameExpr(a, rn, bound)
		if na != a {
			diff = true
		}
		args = append(args, na)
	}
	if !diff {
		return e
	}
	c := *e
	c.Args = args
	return &c
}

// ---------------------------------------------------------------- functions that did not exist at the baseline
//
// An "extract function" refactoring moves statements of a function under contract into a new helper. The helper cannot
// have a contract (it did not exist when the contracts were written), and modular verification would treat the call
// as arbitrary. A function that is absent from the committed baseline list, has no contract, is unexported, and is
// only ever called directly (never stored, passed, deferred or started as a goroutine) is therefore verified the way
// its statements were verified before the refactoring: inlined at each of its call sites, and not on its own.

const funcsFile = "/verif/baseline/functions.json"

func loadBaseFuncs() map[string]bool {
	m := map[string]bool{}
	b, err := os.ReadFile(funcsFile)
	if err != nil {
		return m
	}
	var l []string
	json.Unmarshal(b, &l)
	for _, n := range l {
		m[n] = true
	}
	return m
}

func (sh *Shared) repoFuncNames() []string {
	var l []string
	for n, f := range sh.funcs {
		if len(f.Blocks) > 0 && f.Parent() == nil && f.Synthetic == "" {
			l = append(l, n)
		}
	}
	sort.Strings(l)
	return l
}

func (sh *Shared) findNewHelpers() {
	sh.newHelpers = map[*ssa.Function]bool{}
	base := loadBaseFuncs()
	if len(base) == 0 {
		return
	}
	cand := map[*ssa.Function]bool{}
	for n, f := range sh.funcs {
		if len(f.Blocks) == 0 || f.Parent() != nil || f.Synthetic != "" || base[n] || sh.specs.Funcs[n] != nil {
			continue
		}
		if f.Pkg == nil || !base["pkg:"+f.Pkg.Pkg.Path()] {
			continue // package not covered by the baseline list
		}
		if ast.IsExported(f.Name()) || f.Name() == "init" || f.Name() == "main" {
			continue
		}
		cand[f] = true
	}
	if len(cand) == 0 {
		return
	}
	// every use must be the callee position of a plain call
	for _, g := range sh.funcs {
		for _, b := range g.Blocks {
			for _, in := range b.Instrs {
				if _, dbg := in.(*ssa.DebugRef); dbg {
					continue // source-position bookkeeping of the identifier, not a use
				}
				for _, op := range in.Operands(nil) {
					f, ok := (*op).(*ssa.Function)
					if !ok || !cand[f] {
						continue
					}
					c, isCall := in.(*ssa.Call)
					if !isCall || c.Call.Value != ssa.Value(f) {
						delete(cand, f)
						continue
					}
					for _, a := range c.Call.Args {
						if a == ssa.Value(f) {
							delete(cand, f)
						}
					}
				}
			}
		}
	}
	for f := range cand {
		sh.newHelpers[f] = true
		sh.renameNotes = append(sh.renameNotes, fmt.Sprintf("%s: not in the baseline function list, no contract, unexported and only called directly: verified inlined at its call sites (extract-function refactoring)", f.String()))
	}
	sort.Strings(sh.renameNotes)
}
