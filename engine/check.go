package main

// govc check <ID>: run the property's obligations on /repo's current tree, write evidence and replays,
// print KNOWN-FINDING / VIOLATION lines, exit 0/1.

import (
	"bufio"
	"encoding/json"
	"flag"
	"fmt"
	"os"
	"os/exec"
	"path/filepath"
	"sort"
	"strconv"
	"strings"
	"time"

	"golang.org/x/tools/go/ssa"
)

type PropConfig struct {
	ID        string   `json:"id"`
	Packages  []string `json:"packages"`
	Functions []string `json:"functions"`      // full names or suffixes; "pkg:*" = every function of that package
	NoAssume  []string `json:"no_assume"` // further obligations that are checked but not assumed afterwards (see Options.NoAssume)
	SkipHas   []string `json:"skip_name_contains"` // obligations outside the claim for specific functions (listed as such)
	Exclude   []string `json:"exclude"`        // functions not verified (suffix match)
	Overflow  bool     `json:"overflow"`       // generate overflow obligations
	Guards    bool     `json:"guards"`         // lockset obligations
	Groups    []string `json:"guard_groups"`   // further protects-groups to check (e.g. "tx")
	Kinds     []string `json:"kinds"`          // if set, only these obligation kinds count for this property
	NameHas   []string `json:"name_contains"`  // if set, an obligation counts only if its name contains one of these
	MinObl    int      `json:"min_obligations"`
	Notes     []string `json:"assumptions"`
	Replay    string   `json:"replay"`         // name of the replay driver (replay/<name>.sh)
	Bounded   []string `json:"bounded_cmds"`   // stand-in commands (labelled bounded)
	Lemmas    []string `json:"lemmas"`         // smt2 files with standalone lemma obligations
	TimeoutQ  int      `json:"timeout_quick"`
	TimeoutT  int      `json:"timeout_thorough"`
	SelfCheck bool     `json:"thorough_selfcheck"` // thorough: run the replay driver on the unchanged tree, it must not reproduce
}

type KnownFinding struct {
	Property   string `json:"property"`
	Obligation string `json:"obligation"`
	Status     string `json:"status"` // known | fixed
	What       string `json:"what"`
	Commit     string `json:"commit,omitempty"`
	Input      string `json:"input,omitempty"`
}

func loadKnown(path string) []KnownFinding {
	var out []KnownFinding
	f, err := os.Open(path)
	if err != nil {
		return nil
	}
	defer f.Close()
	sc := bufio.NewScanner(f)
	sc.Buffer(make([]byte, 1<<20), 1<<20)
	for sc.Scan() {
		l := strings.TrimSpace(sc.Text())
		if l == "" || strings.HasPrefix(l, "#") {
			continue
		}
		var k KnownFinding
		if json.Unmarshal([]byte(l), &k) == nil {
			out = append(out, k)
		}
	}
	return out
}

func cmdCheck(args []string) {
	fs := flag.NewFlagSet("check", flag.ExitOnError)
	repo := fs.String("repo", "/repo", "")
	verif := fs.String("verif", "/verif", "")
	tier := fs.String("tier", os.Getenv("VERIF_TIER"), "")
	tmp := fs.String("tmp", "", "")
	verbose := fs.Bool("v", false, "")
	fs.Parse(args)
	if fs.NArg() < 1 {
		fmt.Fprintln(os.Stderr, "usage: govc check <ID>")
		os.Exit(2)
	}
	id := fs.Arg(0)
	if *tier == "" {
		*tier = "quick"
	}
	seed, _ := strconv.Atoi(os.Getenv("VERIF_SEED"))
	t0 := time.Now()
	var cfg PropConfig
	b, err := os.ReadFile(filepath.Join(*verif, "props", id+".json"))
	if err != nil {
		fmt.Fprintln(os.Stderr, err)
		os.Exit(2)
	}
	if err := json.Unmarshal(b, &cfg); err != nil {
		fmt.Fprintln(os.Stderr, "config:", err)
		os.Exit(2)
	}
	if *tmp == "" {
		*tmp = filepath.Join(os.TempDir(), fmt.Sprintf("govc-%s-%d", id, os.Getpid()))
	}
	os.MkdirAll(*tmp, 0755)
	defer os.RemoveAll(*tmp)
	replayDir := filepath.Join(*verif, "replays", id)
	os.RemoveAll(replayDir)
	os.MkdirAll(replayDir, 0755)
	os.MkdirAll(filepath.Join(*verif, "evidence"), 0755)

	known := loadKnown(filepath.Join(*verif, "known_findings.jsonl"))
	violations := 0
	printViolation := func(ob string, rec map[string]interface{}, concrete bool) {
		violations++
		rec["property"] = id
		rec["obligation"] = ob
		path := filepath.Join(replayDir, sanitizeFile(ob)+".json")
		writeJSON(path, rec)
		suffix := ""
		if !concrete {
			suffix = " no-failing-input-found"
		}
		fmt.Printf("VIOLATION property=%s replay=%s obligation=%s%s\n", id, path, strings.ReplaceAll(ob, " ", "_"), suffix)
	}

	sh, err := loadShared(*repo, cfg.Packages, filepath.Join(*verif, "contracts", "ext"))
	if err != nil {
		// the tree does not load (does not compile, or a contract file is malformed): cannot show the property
		printViolation(id+"#verifiable:load", map[string]interface{}{"error": err.Error()}, false)
		writeEvidence(*verif, &cfg, *tier, seed, nil, nil, violations, time.Since(t0).Seconds(), nil, nil)
		os.RemoveAll(*tmp)
		os.Exit(1)
	}
	// select functions
	var fns []*ssa.Function
	seen := map[*ssa.Function]bool{}
	var missing []string
	excluded := func(name string) bool {
		for _, x := range cfg.Exclude {
			if name == x || strings.HasSuffix(name, x) {
				return true
			}
		}
		return false
	}
	for _, want := range cfg.Functions {
		found := false
		if strings.HasSuffix(want, ":*") && want != "contracts:*" {
			pkg := strings.TrimSuffix(want, ":*")
			for n, f := range sh.funcs {
				top := f
				for top.Parent() != nil {
					top = top.Parent()
				}
				if len(f.Blocks) > 0 && top.Pkg != nil && top.Pkg.Pkg.Path() == pkg && f.Synthetic == "" && f.Name() != "init" && !excluded(n) && !seen[f] && !sh.newHelpers[top] {
					fns = append(fns, f)
					seen[f] = true
				}
				found = true
			}
		} else if want == "contracts:*" {
			for n := range sh.specs.Funcs {
				if f, ok := sh.funcs[n]; ok && len(f.Blocks) > 0 && !excluded(n) && !seen[f] && (f.Parent() == nil || sh.specs.Funcs[n].Attrs["modular"]) && !sh.specs.Funcs[n].Attrs["inline"] {
					fns = append(fns, f)
					seen[f] = true
				}
			}
			found = true
		} else {
			for n, f := range sh.funcs {
				if (n == want || strings.HasSuffix(n, "."+want) || strings.HasSuffix(n, ")."+want) || strings.HasSuffix(n, "/"+want)) && len(f.Blocks) > 0 {
					if !seen[f] && !excluded(n) {
						fns = append(fns, f)
						seen[f] = true
					}
					found = true
				}
			}
		}
		if !found {
			missing = append(missing, want)
		}
	}
	sort.Slice(fns, func(i, j int) bool { return fns[i].String() < fns[j].String() })
	timeout := cfg.TimeoutQ
	if timeout == 0 {
		timeout = 10
	}
	if *tier == "thorough" {
		timeout = cfg.TimeoutT
		if timeout == 0 {
			timeout = 60
		}
	}
	opt := Options{Overflow: cfg.Overflow, Guards: cfg.Guards, Groups: cfg.Groups, Timeout: timeout, TmpDir: *tmp}
	opt.NoAssume = append(append([]string{}, cfg.SkipHas...), cfg.NoAssume...)
	// obligations that are outside some property's claim or known to fail are never assumed, whichever check runs
	if b, err := os.ReadFile(filepath.Join(*verif, "props", "no_assume.json")); err == nil {
		var g []string
		if json.Unmarshal(b, &g) == nil {
			opt.NoAssume = append(opt.NoAssume, g...)
		}
	}
	if len(cfg.Kinds) > 0 || len(cfg.NameHas) > 0 {
		opt.Want = func(ob *Obligation) bool {
			if len(cfg.Kinds) > 0 {
				ok := false
				for _, x := range cfg.Kinds {
					if x == ob.Kind || strings.HasPrefix(ob.Kind, x) {
						ok = true
					}
				}
				if !ok {
					return false
				}
			}
			if len(cfg.NameHas) > 0 {
				for _, x := range cfg.NameHas {
					if strings.Contains(ob.Name, x) {
						return true
					}
				}
				return false
			}
			return true
		}
	}
	results := make([]*FuncResult, len(fns))
	parallel(len(fns), 8, func(i int) { results[i] = sh.verifyFunc(fns[i], opt) })

	nameOK := func(n string) bool {
		if len(cfg.NameHas) == 0 {
			return true
		}
		for _, x := range cfg.NameHas {
			if strings.Contains(n, x) {
				return true
			}
		}
		return false
	}
	kindOK := func(k string) bool {
		if len(cfg.Kinds) == 0 {
			return true
		}
		for _, x := range cfg.Kinds {
			if x == k || strings.HasPrefix(k, x) {
				return true
			}
		}
		return k == "cover" || k == "canary"
	}
	isKnown := func(ob string) *KnownFinding {
		for i := range known {
			if known[i].Property == id && known[i].Obligation == ob && known[i].Status == "known" {
				return &known[i]
			}
		}
		return nil
	}
	for _, m := range missing {
		printViolation(m+"#verifiable:missing", map[string]interface{}{"error": "function under contract not found in the current tree: " + m}, false)
	}
	total, discharged, covers, coverOK := 0, 0, 0, 0
	var samples []map[string]interface{}
	bySolver := map[string]int{}
	solveTime := 0.0
	guardBy := map[string]int{}
	guardTime := 0.0
	assumptions := map[string]bool{}
	for _, n := range sh.renameNotes {
		fmt.Println("NOTE:", n)
		assumptions["alpha-renaming (checked by SSA shape hash against /verif/baseline/shapes.json): "+n] = true
	}
	var funcsUnder []string
	var knownPrinted []string
	unproved := 0
	var slow []slowOb
	for _, r := range results {
		funcsUnder = append(funcsUnder, r.Func)
		for _, a := range r.Assumptions {
			assumptions[a] = true
		}
		for _, a := range r.Havoc {
			assumptions["callee without contract (results arbitrary, frame from body scan or total havoc): "+a] = true
		}
		for _, a := range r.ExtDefault {
			assumptions["external callee without contract (ext-default: may write only what its arguments reach): "+a] = true
		}
		solveTime += r.SolveTime
		if r.Err != "" || len(r.Unsupported) > 0 {
			ob := shortPath(r.Func) + "#verifiable"
			rec := map[string]interface{}{"error": r.Err, "unsupported": r.Unsupported}
			if k := isKnown(ob); k != nil {
				fmt.Printf("KNOWN-FINDING: property=%s %s %s\n", id, ob, k.What)
				knownPrinted = append(knownPrinted, ob)
			} else {
				concrete := false
				if cfg.Replay != "" {
					out, ok := runReplay(*verif, cfg.Replay, id, &Obligation{Name: ob, Func: r.Func, Kind: "verifiable"}, *repo)
					rec["replay_output"] = truncate(out, 4000)
					rec["replayed_on_real_code"] = ok
					concrete = ok
				}
				printViolation(ob, rec, concrete)
			}
			total++
			unproved++
			continue
		}
		for _, ob := range r.Obligations {
			skipped := false
			for _, x := range cfg.SkipHas {
				if !ob.Cover && !ob.Canary && strings.Contains(ob.Name, x) {
					skipped = true
				}
			}
			if skipped {
				assumptions["obligations matching "+fmt.Sprint(cfg.SkipHas)+" are outside this property's claim and are not counted"] = true
				continue
			}
			if !kindOK(ob.Kind) || (!ob.Cover && !ob.Canary && !nameOK(ob.Name)) {
				assumptions["obligations of kind "+ob.Kind+" outside this property's claim are not counted here (they belong to other properties or are assumed)"] = true
				continue
			}
			if ob.Cover || ob.Canary {
				covers++
				if ob.Status != "unsat" {
					coverOK++
					guardBy[ob.Status+" by "+ob.Solver]++
					guardTime += ob.Time
				} else {
					// vacuity: the path condition is contradictory
					name := ob.Name
					if k := isKnown(name); k != nil {
						fmt.Printf("KNOWN-FINDING: property=%s %s %s\n", id, name, k.What)
						knownPrinted = append(knownPrinted, name)
					} else {
						printViolation(name, map[string]interface{}{"kind": ob.Kind, "error": "vacuity guard failed: the function's exit (or precondition) is unreachable under the assumed contracts, so its obligations would hold vacuously", "pos": ob.Pos}, false)
					}
				}
				continue
			}
			total++
			if ob.Status == "unsat" && ob.Time > 2 {
				slow = append(slow, slowOb{ob.Name, ob.Solver, ob.Time})
			}
			if ob.Status == "unsat" {
				discharged++
				bySolver[ob.Solver]++
				if len(samples) < 12 {
					samples = append(samples, map[string]interface{}{"obligation": ob.Name, "at": ob.Pos, "solver": ob.Solver, "time_s": round3(ob.Time), "clause": ob.Src})
				}
				continue
			}
			unproved++
			rec := map[string]interface{}{"kind": ob.Kind, "func": ob.Func, "pos": ob.Pos, "status": ob.Status, "solver": ob.Solver, "clause": ob.Src, "solver_output": truncate(ob.Output, 6000)}
			if k := isKnown(ob.Name); k != nil {
				fmt.Printf("KNOWN-FINDING: property=%s %s %s\n", id, ob.Name, k.What)
				knownPrinted = append(knownPrinted, ob.Name)
				// a recorded finding is reported, not claimed: it is listed under known_findings and is not part of
				// the obligations this run claims to have discharged
				total--
				unproved--
				continue
			}
			concrete := false
			if cfg.Replay != "" {
				out, ok := runReplay(*verif, cfg.Replay, id, ob, *repo)
				rec["replay_output"] = truncate(out, 4000)
				rec["replayed_on_real_code"] = ok
				concrete = ok
			}
			printViolation(ob.Name, rec, concrete)
		}
	}
	if total < cfg.MinObl {
		printViolation(id+"#obligation-count", map[string]interface{}{"error": fmt.Sprintf("only %d obligations generated, expected at least %d: functions or contracts disappeared", total, cfg.MinObl)}, false)
	}
	// standalone lemmas
	for _, lf := range cfg.Lemmas {
		total++
		script, err := os.ReadFile(filepath.Join(*verif, lf))
		st := "error"
		var r SolverResult
		if err == nil {
			r = raceSolvers(string(script), timeout, *tmp, "lemma_"+sanitizeFile(lf), nil)
			st = r.Status
		}
		if st == "unsat" {
			discharged++
			bySolver[r.Solver]++
			samples = append(samples, map[string]interface{}{"obligation": "lemma:" + lf, "solver": r.Solver, "time_s": round3(r.Time)})
		} else {
			printViolation("lemma:"+lf, map[string]interface{}{"status": st, "solver_output": truncate(r.Output, 4000)}, false)
		}
	}
	// bounded stand-ins (never counted as discharged)
	var bounded []map[string]interface{}
	for _, c := range cfg.Bounded {
		cmd := exec.Command("bash", "-c", c)
		cmd.Dir = *verif
		cmd.Env = append(os.Environ(), "VERIF_TIER="+*tier, "VERIF_PROP="+id, "REPO="+*repo)
		out, err := cmd.CombinedOutput()
		rec := map[string]interface{}{"cmd": c, "ok": err == nil, "output_tail": truncate(tail(string(out), 30), 3000)}
		bounded = append(bounded, rec)
		if err != nil {
			// the stand-in prints its own VIOLATION lines; pass them through
			for _, l := range strings.Split(string(out), "\n") {
				if strings.HasPrefix(l, "VIOLATION ") || strings.HasPrefix(l, "KNOWN-FINDING") {
					fmt.Println(l)
					if strings.HasPrefix(l, "VIOLATION ") {
						violations++
					}
				}
			}
			if !strings.Contains(string(out), "VIOLATION ") {
				printViolation(id+"#bounded:"+c, rec, false)
			}
		} else {
			for _, l := range strings.Split(string(out), "\n") {
				if strings.HasPrefix(l, "KNOWN-FINDING") {
					fmt.Println(l)
				}
			}
		}
	}
	// thorough tier: the property's replay driver is also run against the unchanged tree as an independent oracle;
	// it must NOT reproduce anything (recorded findings have their own mode and are not exercised here)
	var selfcheck map[string]interface{}
	if *tier == "thorough" && cfg.Replay != "" && cfg.SelfCheck {
		script := filepath.Join(*verif, "replay", cfg.Replay+".sh")
		cmd := exec.Command("bash", script, "/dev/null", *repo)
		cmd.Dir = *verif
		out, err := cmd.CombinedOutput()
		selfcheck = map[string]interface{}{"cmd": "replay/" + cfg.Replay + ".sh /dev/null " + *repo, "reproduced": err == nil, "output_tail": truncate(tail(string(out), 12), 2000)}
		if err == nil {
			printViolation(id+"#replay-driver-on-the-unchanged-tree", selfcheck, true)
		}
	}
	for _, n := range cfg.Notes {
		assumptions[n] = true
	}
	cov := map[string]interface{}{
		"obligations":        total,
		"discharged":         discharged,
		"unproved":           unproved,
		"known_findings":     knownPrinted,
		"vacuity_guards":     covers,
		"vacuity_guards_ok":  coverOK,
		"vacuity_guards_by":  guardBy,
		"vacuity_guards_s":   round3(guardTime),
		"functions_under_contract": funcsUnder,
		"discharged_by":      bySolver,
		"solver_time_s":      round3(solveTime),
		"samples":            samples,
		"slowest_obligations": slowest(slow),
		"replay_driver_selfcheck": selfcheck,
		"checker_cmd":        fmt.Sprintf("/verif/bin/govc check %s (VC generation over go/ssa of /repo, tags=verif; z3-new 5.1.0 batch then z3-new/z3 4.8.12/cvc5 1.0.3 raced per obligation, %ds limit)", id, timeout),
		"trusted_base":       sortedKeys(assumptions),
		"bounded":            bounded,
	}
	writeEvidence(*verif, &cfg, *tier, seed, cov, nil, violations, time.Since(t0).Seconds(), nil, nil)
	if *verbose {
		fmt.Printf("%s: %d obligations, %d discharged, %d known, %d violations, %.1fs\n", id, total, discharged, len(knownPrinted), violations, time.Since(t0).Seconds())
	}
	os.RemoveAll(*tmp)
	if violations > 0 {
		os.Exit(1)
	}
}

func round3(f float64) float64 { return float64(int(f*1000)) / 1000 }

func truncate(s string, n int) string {
	if len(s) > n {
		return s[:n] + "…"
	}
	return s
}

func tail(s string, n int) string {
	ls := strings.Split(strings.TrimRight(s, "\n"), "\n")
	if len(ls) > n {
		ls = ls[len(ls)-n:]
	}
	return strings.Join(ls, "\n")
}

func writeEvidence(verif string, cfg *PropConfig, tier string, seed int, cov map[string]interface{}, _ interface{}, violations int, wall float64, _ interface{}, _ interface{}) {
	if cov == nil {
		cov = map[string]interface{}{"obligations": 0, "discharged": 0, "checker_cmd": "govc check " + cfg.ID, "trusted_base": []string{}, "evaluations": 1, "distinct_nontrivial": 0, "samples": []interface{}{"load failed"}}
	}
	ev := map[string]interface{}{
		"property_id": cfg.ID,
		"tier":        tier,
		"seed":        seed,
		"level":       "proof",
		"coverage":    cov,
		"assumptions": cov["trusted_base"],
		"wall_s":      round3(wall),
		"violations":  violations,
	}
	writeJSON(filepath.Join(verif, "evidence", cfg.ID+".json"), ev)
}

// replay driver: /verif/replay/<name>.sh <replay-json-in> → exit 0 if the violation was reproduced on the real code
func runReplay(verif, name, id string, ob *Obligation, repo string) (string, bool) {
	script := filepath.Join(verif, "replay", name+".sh")
	if _, err := os.Stat(script); err != nil {
		return "no replay driver", false
	}
	in := map[string]interface{}{"property": id, "obligation": ob.Name, "func": ob.Func, "pos": ob.Pos, "kind": ob.Kind, "model": truncate(ob.Output, 20000)}
	tmpf, _ := os.CreateTemp("", "govc-replay-*.json")
	b, _ := json.Marshal(in)
	tmpf.Write(b)
	tmpf.Close()
	defer os.Remove(tmpf.Name())
	cmd := exec.Command("bash", script, tmpf.Name(), repo)
	cmd.Dir = verif
	out, err := cmd.CombinedOutput()
	return string(out), err == nil
}

type slowOb struct {
	Name   string
	Solver string
	Time   float64
}

// the obligations that took longest to discharge (stability margin against the per-obligation limit)
func slowest(all []slowOb) []map[string]interface{} {
	sort.Slice(all, func(i, j int) bool { return all[i].Time > all[j].Time })
	var out []map[string]interface{}
	for i, o := range all {
		if i >= 8 {
			break
		}
		out = append(out, map[string]interface{}{"obligation": o.Name, "solver": o.Solver, "time_s": round3(o.Time)})
	}
	return out
}
