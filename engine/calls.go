package main

import (
	"fmt"
	"sort"
	"go/ast"
	"go/types"
	"strings"

	"golang.org/x/tools/go/ssa"
)

// ------------------------------------------------------------------ modification summaries

type modInfo struct {
	comps  map[string]bool
	all    bool
	allocs bool
	ghosts map[string]bool
}

func (e *Engine) inRepo(fn *ssa.Function) bool {
	return fn != nil && len(fn.Blocks) > 0
}

// modOf: components a function may write (transitively), from its contract or by scanning its body
func (e *Engine) modOf(fn *ssa.Function, busy map[*ssa.Function]bool) *modInfo {
	if mi, ok := e.modMemo[fn]; ok {
		return mi
	}
	if busy[fn] {
		return &modInfo{all: true, comps: map[string]bool{}}
	}
	mi := &modInfo{comps: map[string]bool{}}
	if sp := e.specs.Funcs[e.fnName(fn)]; sp != nil && sp.HasMod && !sp.Attrs["inline"] {
		e.modOfSpec(sp, fn.Signature, fn.Pkg, mi)
		if !sp.Attrs["pure"] {
			mi.allocs = true
		}
		e.modMemo[fn] = mi
		return mi
	}
	if !e.inRepo(fn) {
		// external without contract: ext-default policy (arguments' element arrays)
		e.extDefaultMods(fn.Signature, mi)
		mi.allocs = true
		e.modMemo[fn] = mi
		return mi
	}
	busy[fn] = true
	e.scanBlocks(fn, fn.Blocks, mi, busy)
	delete(busy, fn)
	// lock ghosts: every function in scope is checked for lock balance (lockbalance obligations), so an
	// uncontracted callee leaves the lock state as it found it
	for c := range mi.comps {
		if e.isLockGhost(c) {
			delete(mi.comps, c)
		}
	}
	e.modMemo[fn] = mi
	return mi
}

func (e *Engine) extDefaultMods(sig *types.Signature, mi *modInfo) {
	add := func(t types.Type) {
		switch u := t.Underlying().(type) {
		case *types.Slice:
			if _, ok := isStruct(u.Elem()); !ok {
				if _, ok := u.Elem().Underlying().(*types.Array); !ok {
					mi.comps[e.elemComp(u.Elem())] = true
				}
			}
		case *types.Pointer:
			e.deepComps(u.Elem(), mi.comps)
		case *types.Interface:
			// boxed pointers are handled at the call site (deep havoc of the pointee)
		}
	}
	if sig.Recv() != nil {
		add(sig.Recv().Type())
	}
	for i := 0; i < sig.Params().Len(); i++ {
		add(sig.Params().At(i).Type())
	}
}

// all components making up a value of type t stored in memory (not following pointers)
func (e *Engine) deepComps(t types.Type, out map[string]bool) {
	switch u := t.Underlying().(type) {
	case *types.Struct:
		key := e.structKey(t)
		for i := 0; i < u.NumFields(); i++ {
			f := u.Field(i)
			if f.Pkg() != nil && !strings.HasPrefix(f.Pkg().Path(), "massnet.org/mass") {
				// fields of external structs are not modelled
				continue
			}
			if c, ok := e.fieldComp(key, f); ok {
				out[c] = true
			} else {
				e.deepComps(f.Type(), out)
			}
		}
	case *types.Array:
		if _, ok := isStruct(u.Elem()); !ok {
			out[e.elemComp(u.Elem())] = true
		}
	default:
		out[e.cellComp(t)] = true
	}
}

func (e *Engine) modOfSpec(sp *FuncSpec, sig *types.Signature, pkg *ssa.Package, mi *modInfo) {
	for _, c := range sp.Sets {
		if g, ok := e.specs.Ghosts[strings.SplitN(c.Key, "[", 2)[0]]; ok {
			mi.comps[e.comp("ghost$"+g.Name, g.Sort)] = true
		}
	}
	for _, m := range sp.Modifies {
		if m == "*" || m == "heap" {
			mi.all = true
			continue
		}
		cs, err := e.modTargetComps(m, sp, sig)
		if err != nil {
			mi.all = true
			e.unsupported = append(e.unsupported, fmt.Sprintf("%s: modifies %q: %v", sp.Name, m, err))
			continue
		}
		for _, c := range cs {
			mi.comps[c] = true
		}
	}
}

// component names for a modifies target (type-level resolution)
func (e *Engine) modTargetComps(m string, sp *FuncSpec, sig *types.Signature) ([]string, error) {
	m = strings.TrimSpace(m)
	if g, ok := e.specs.Ghosts[strings.SplitN(m, "[", 2)[0]]; ok {
		return []string{e.comp("ghost$"+g.Name, g.Sort)}, nil
	}
	if strings.HasPrefix(m, "elems(") && strings.HasSuffix(m, ")") {
		t, err := e.parseTypeIn(sp.Pkg, m[6:len(m)-1])
		if err != nil {
			return nil, err
		}
		return []string{e.elemComp(t)}, nil
	}
	if strings.HasPrefix(m, "deep(") && strings.HasSuffix(m, ")") {
		name := m[5 : len(m)-1]
		t := e.paramType(sig, name)
		if t == nil {
			return nil, fmt.Errorf("deep(): unknown parameter %s", name)
		}
		out := map[string]bool{}
		if p, ok := t.Underlying().(*types.Pointer); ok {
			e.deepComps(p.Elem(), out)
		} else if _, ok := t.Underlying().(*types.Interface); ok {
			return nil, fmt.Errorf("deep() on interface parameter resolved at call sites only")
		}
		return sortedKeys(out), nil
	}
	if strings.HasSuffix(m, "[*]") || strings.HasSuffix(m, "[:]") {
		name := strings.TrimSuffix(strings.TrimSuffix(m, "[*]"), "[:]")
		t := e.exprType(sig, sp.Pkg, name)
		if t == nil {
			t = e.dummyType(sig, sp.Pkg, name)
		}
		if t == nil {
			return nil, fmt.Errorf("unknown %s", name)
		}
		switch u := t.Underlying().(type) {
		case *types.Slice:
			return []string{e.elemComp(u.Elem())}, nil
		case *types.Map:
			d, v := e.mapComps(u)
			return []string{d, v}, nil
		case *types.Pointer:
			if arr, ok := u.Elem().Underlying().(*types.Array); ok {
				return []string{e.elemComp(arr.Elem())}, nil
			}
		case *types.Array:
			return []string{e.elemComp(u.Elem())}, nil
		}
		return nil, fmt.Errorf("[*] on non-slice %s", t)
	}
	if strings.HasPrefix(m, "*") {
		name := m[1:]
		t := e.paramType(sig, name)
		if t == nil {
			return nil, fmt.Errorf("unknown parameter %s", name)
		}
		p, ok := t.Underlying().(*types.Pointer)
		if !ok {
			return nil, fmt.Errorf("*%s: not a pointer", name)
		}
		out := map[string]bool{}
		e.deepComps(p.Elem(), out)
		return sortedKeys(out), nil
	}
	if i := strings.LastIndex(m, "."); i > 0 {
		base, fname := m[:i], m[i+1:]
		var st types.Type
		if t := e.exprType(sig, sp.Pkg, base); t != nil {
			st = t
		} else if t, err := e.parseTypeIn(sp.Pkg, base); err == nil {
			st = t
		} else {
			return nil, fmt.Errorf("cannot resolve %s", base)
		}
		if p, ok := st.Underlying().(*types.Pointer); ok {
			st = p.Elem()
		}
		s, ok := isStruct(st)
		if !ok {
			return nil, fmt.Errorf("%s is not a struct", base)
		}
		f, path := findField(s, fname)
		if f == nil || len(path) != 1 {
			return nil, fmt.Errorf("no direct field %s", fname)
		}
		out := map[string]bool{}
		if c, ok := e.fieldComp(e.structKey(st), f); ok {
			out[c] = true
		} else {
			e.deepComps(f.Type(), out)
		}
		return sortedKeys(out), nil
	}
	return nil, fmt.Errorf("unsupported modifies target")
}

func (e *Engine) paramType(sig *types.Signature, name string) types.Type {
	if sig.Recv() != nil && (sig.Recv().Name() == name || name == "this") {
		return sig.Recv().Type()
	}
	for i := 0; i < sig.Params().Len(); i++ {
		if sig.Params().At(i).Name() == name || name == fmt.Sprintf("arg%d", i) {
			return sig.Params().At(i).Type()
		}
	}
	for i := 0; i < sig.Results().Len(); i++ {
		if sig.Results().At(i).Name() == name || name == fmt.Sprintf("result%d", i) || (name == "result" && i == 0) {
			return sig.Results().At(i).Type()
		}
	}
	return nil
}

// static type of a simple path expression x.f.g over parameters
func (e *Engine) exprType(sig *types.Signature, pkg string, expr string) types.Type {
	parts := strings.Split(expr, ".")
	t := e.paramType(sig, parts[0])
	if t == nil {
		return nil
	}
	for _, p := range parts[1:] {
		if pp, ok := t.Underlying().(*types.Pointer); ok {
			t = pp.Elem()
		}
		s, ok := isStruct(t)
		if !ok {
			return nil
		}
		f, _ := findField(s, p)
		if f == nil {
			return nil
		}
		t = f.Type()
	}
	return t
}

func (e *Engine) parseTypeIn(pkg string, s string) (t types.Type, err error) {
	defer func() {
		if r := recover(); r != nil {
			err = fmt.Errorf("%v", r)
		}
	}()
	env := &Env{e: e, pkg: e.pkgTypes(pkg)}
	return env.parseType(s), nil
}

func (e *Engine) scanBlocks(fn *ssa.Function, blocks []*ssa.BasicBlock, mi *modInfo, busy map[*ssa.Function]bool) {
	for _, b := range blocks {
		for _, in := range b.Instrs {
			switch x := in.(type) {
			case *ssa.Store:
				if fn != nil && !blocksAreLoop(fn, blocks) && rootIsLocalAlloc(x.Addr) {
					continue // writes to the callee's own fresh memory are invisible to callers
				}
				e.scanStore(x.Addr, mi)
			case *ssa.MapUpdate:
				if _, local := x.Map.(*ssa.MakeMap); local && fn != nil && !blocksAreLoop(fn, blocks) {
					continue // the callee's own fresh map
				}
				mt := x.Map.Type().Underlying().(*types.Map)
				d, v := e.mapComps(mt)
				mi.comps[d] = true
				mi.comps[v] = true
			case *ssa.Alloc, *ssa.MakeSlice, *ssa.MakeMap, *ssa.MakeChan, *ssa.MakeClosure:
				mi.allocs = true
				if fn == nil || blocksAreLoop(fn, blocks) {
					// inside a loop of the function under verification the zero-initialisation is a visible write
					if a, ok := x.(*ssa.Alloc); ok {
						e.compsOfStore(nil, a.Type().(*types.Pointer).Elem(), mi.comps)
					}
					if ms, ok := x.(*ssa.MakeSlice); ok {
						et := ms.Type().Underlying().(*types.Slice).Elem()
						if _, isS := isStruct(et); !isS {
							if _, isA := et.Underlying().(*types.Array); !isA {
								mi.comps[e.elemComp(et)] = true
							}
						}
					}
					if mm, ok := x.(*ssa.MakeMap); ok {
						d, _ := e.mapComps(mm.Type().Underlying().(*types.Map))
						mi.comps[d] = true
					}
				}
			case *ssa.Convert:
				if sl, ok := x.Type().Underlying().(*types.Slice); ok && isStr(x.X.Type()) {
					mi.comps[e.elemComp(sl.Elem())] = true
					mi.allocs = true
				}
			case ssa.CallInstruction:
				if _, isGo := x.(*ssa.Go); isGo {
					continue
				}
				e.scanCall(fn, x.Common(), mi, busy)
			}
		}
	}
}

func (e *Engine) scanStore(addr ssa.Value, mi *modInfo) {
	pt := addr.Type().Underlying().(*types.Pointer).Elem()
	switch a := addr.(type) {
	case *ssa.FieldAddr:
		st := a.X.Type().Underlying().(*types.Pointer).Elem()
		s, _ := isStruct(st)
		f := s.Field(a.Field)
		if c, ok := e.fieldComp(e.structKey(st), f); ok {
			mi.comps[c] = true
			return
		}
		e.compsOfStore(nil, f.Type(), mi.comps)
		return
	case *ssa.IndexAddr:
		switch u := a.X.Type().Underlying().(type) {
		case *types.Slice:
			e.compsOfStore(&addrSrc{kind: "elem", elem: u.Elem()}, pt, mi.comps)
			return
		case *types.Pointer:
			arr := u.Elem().Underlying().(*types.Array)
			e.compsOfStore(&addrSrc{kind: "elem", elem: arr.Elem()}, pt, mi.comps)
			return
		}
	case *ssa.Global:
		name := shortPath(a.Pkg.Pkg.Path()) + "." + a.Name()
		e.compsOfStore(&addrSrc{kind: "global", global: name}, pt, mi.comps)
		return
	}
	e.compsOfStore(nil, pt, mi.comps)
}

func (e *Engine) scanCall(fn *ssa.Function, cc *ssa.CallCommon, mi *modInfo, busy map[*ssa.Function]bool) {
	if cc.IsInvoke() {
		name := cc.Method.FullName()
		if sp := e.specs.Funcs[name]; sp != nil && sp.HasMod {
			e.modOfSpec(sp, cc.Method.Type().(*types.Signature), nil, mi)
			if !sp.Attrs["pure"] {
				mi.allocs = true
			}
			return
		}
		mi.all = true
		return
	}
	switch v := cc.Value.(type) {
	case *ssa.Builtin:
		switch v.Name() {
		case "append":
			if sl, ok := cc.Args[0].Type().Underlying().(*types.Slice); ok {
				if _, isS := isStruct(sl.Elem()); !isS {
					mi.comps[e.elemComp(sl.Elem())] = true
				}
			}
			mi.allocs = true
		case "copy":
			if sl, ok := cc.Args[0].Type().Underlying().(*types.Slice); ok {
				mi.comps[e.elemComp(sl.Elem())] = true
			}
		case "delete":
			mt := cc.Args[0].Type().Underlying().(*types.Map)
			d, _ := e.mapComps(mt)
			mi.comps[d] = true
		case "clear":
			mi.all = true
		}
		return
	case *ssa.Function:
		sub := e.modOf(v, busy)
		mergeMod(mi, sub)
		if sp := e.specs.Funcs[v.String()]; sp != nil && sp.Attrs["inline"] {
			// an inlined callee calls its function-typed parameters: account for the closures passed here
			for _, a := range cc.Args {
				if _, isFn := a.Type().Underlying().(*types.Signature); !isFn {
					continue
				}
				if mc, ok := a.(*ssa.MakeClosure); ok {
					mergeMod(mi, e.modOf(mc.Fn.(*ssa.Function), busy))
				} else if f, ok := a.(*ssa.Function); ok {
					mergeMod(mi, e.modOf(f, busy))
				} else {
					mi.all = true
				}
			}
		}
		return
	case *ssa.MakeClosure:
		sub := e.modOf(v.Fn.(*ssa.Function), busy)
		mergeMod(mi, sub)
		return
	}
	// a function-typed parameter called inside a function that is always inlined: accounted for at the call site
	if _, isParam := cc.Value.(*ssa.Parameter); isParam && fn != nil {
		if sp := e.specs.Funcs[fn.String()]; sp != nil && sp.Attrs["inline"] {
			return
		}
	}
	// dynamic call through a function value: look for closures created in this function
	found := false
	if fn != nil {
		for _, anon := range fn.AnonFuncs {
			if types.Identical(anon.Signature, cc.Signature()) {
				mergeMod(mi, e.modOf(anon, busy))
				found = true
			}
		}
	}
	if !found {
		mi.all = true
	} else {
		// parameters of function type may still be arbitrary
		if _, isParam := cc.Value.(*ssa.Parameter); isParam {
			mi.all = true
		}
	}
}

func mergeMod(dst, src *modInfo) {
	if src.all {
		dst.all = true
	}
	if src.allocs {
		dst.allocs = true
	}
	for c := range src.comps {
		dst.comps[c] = true
	}
}

// ------------------------------------------------------------------ error sentinels

// package-level `var ErrX = errors.New(...)` never reassigned: a non-nil constant, distinct per variable
func (e *Engine) errGlobalTerm(o *types.Var) (string, bool) {
	if o.Pkg() == nil || o.Parent() != o.Pkg().Scope() {
		return "", false
	}
	if !types.Identical(o.Type(), types.Universe.Lookup("error").Type()) {
		return "", false
	}
	name := shortPath(o.Pkg().Path()) + "." + o.Name()
	if id, ok := e.errGlobals[name]; ok {
		if id == 0 {
			return "", false
		}
		return sym("errconst$" + name), true
	}
	// must be initialised by errors.New / fmt.Errorf and never stored to elsewhere
	ok := false
	for _, p := range e.pkgs {
		if p.PkgPath != o.Pkg().Path() {
			continue
		}
		for _, f := range p.Syntax {
			for _, d := range f.Decls {
				gd, isG := d.(*ast.GenDecl)
				if !isG {
					continue
				}
				for _, s := range gd.Specs {
					vs, isV := s.(*ast.ValueSpec)
					if !isV {
						continue
					}
					for i, n := range vs.Names {
						if n.Name == o.Name() && i < len(vs.Values) {
							if ce, isC := vs.Values[i].(*ast.CallExpr); isC {
								fn := exprString(ce.Fun)
								if fn == "errors.New" || fn == "fmt.Errorf" {
									ok = true
								}
							}
						}
					}
				}
			}
		}
	}
	if !ok {
		// external package: trust the naming convention ErrXxx for exported error variables
		isLoaded := false
		for _, p := range e.pkgs {
			if p.PkgPath == o.Pkg().Path() {
				isLoaded = true
			}
		}
		if !isLoaded && strings.HasPrefix(o.Name(), "Err") || !isLoaded && o.Name() == "EOF" {
			ok = true
			e.assume("exported error variable " + name + " of a dependency is a non-nil constant")
		}
	}
	if ok {
		// no store outside init
		if sp := e.spkgs[o.Pkg().Path()]; sp != nil {
			if g, isG := sp.Members[o.Name()].(*ssa.Global); isG {
				for _, m := range sp.Members {
					fn, isF := m.(*ssa.Function)
					if !isF || fn.Name() == "init" {
						continue
					}
					if storesTo(fn, g) {
						ok = false
					}
				}
			}
		}
	}
	if !ok {
		e.errGlobals[name] = 0
		return "", false
	}
	id := len(e.errGlobals) + 1
	e.errGlobals[name] = id
	q := e.sc.decl("errconst$"+name, "Int")
	f := e.sc.declFun("errid", []string{"Int"}, "Int")
	e.sc.assert(fmt.Sprintf("(and (not (= %s 0)) (= (%s %s) %d) (implErr (dyntype %s)))", q, f, q, id, q))
	return q, true
}

func storesTo(fn *ssa.Function, g *ssa.Global) bool {
	for _, b := range fn.Blocks {
		for _, in := range b.Instrs {
			if s, ok := in.(*ssa.Store); ok && s.Addr == g {
				return true
			}
		}
	}
	for _, a := range fn.AnonFuncs {
		if storesTo(a, g) {
			return true
		}
	}
	return false
}

// ------------------------------------------------------------------ lockset

func (fr *Frame) lockCheck(a Val, write bool) {
	e := fr.e
	if a.Src == nil || a.Src.kind != "field" || len(e.guards) == 0 {
		return
	}
	for _, g := range e.guards[a.Src.skey+"."+a.Src.fname] {
		fr.lockCheck1(a, write, g)
	}
}

func (fr *Frame) lockCheck1(a Val, write bool, g *GuardSpec) {
	e := fr.e
	acc := "read"
	if write {
		acc = "write"
	}
	if g.Read != nil {
		env := fr.envAt(fr.block, fr.idx, fr.cur.st, nil)
		if p := e.pkgTypes(g.Pkg); p != nil {
			env.pkg = p
		}
		env.lookup = nil
		if t := e.globalType("*" + g.Type); t != nil {
			env.names["this"] = Val{T: a.Src.base, Ty: t}
		}
		ex := g.Read
		if write {
			ex = g.Write
		}
		t, err := env.Bool(ex)
		if err != nil {
			e.unsupported = append(e.unsupported, fmt.Sprintf("%s: protects clause of %s: %v", fr.prefix, g.Type, err))
			return
		}
		kind := "lock"
		if g.Group != "" && g.Group != "lock" {
			kind = g.Group
		}
		if t == "true" {
			return
		}
		fr.oblige(kind, acc+"("+a.Src.skey+"."+a.Src.fname+")", sOr(t, "(> "+a.Src.base+" "+e.alloc0+")"))
		return
	}
	held := e.comp("ghost$held", "(Array Int Bool)")
	rheld := e.comp("ghost$rheld", "(Array Int Bool)")
	mu := e.fa(a.Src.skey, g.Mu, a.Src.base)
	cond := "(select " + e.get(fr.cur.st, held) + " " + mu + ")"
	if !write && g.RW {
		cond = sOr(cond, "(select "+e.get(fr.cur.st, rheld)+" "+mu+")")
	}
	if g.Also != "" {
		if gv, ok := e.specs.Ghosts[g.Also]; ok {
			also := e.get(fr.cur.st, e.comp("ghost$"+gv.Name, gv.Sort))
			if write {
				cond = sAnd(cond, also)
			} else {
				cond = sOr(cond, also)
			}
		}
	}
	// objects created by this function are not shared yet
	cond = sOr(cond, "(> "+a.Src.base+" "+e.alloc0+")")
	fr.oblige("lock", acc+"("+a.Src.skey+"."+a.Src.fname+")", cond)
}

// ------------------------------------------------------------------ assert-at

// frames whose clauses apply at the current point: the frame itself and, for a helper that is verified as part of
// its caller (shape.go), the callers it is inlined into
func (fr *Frame) clauseFrames() []*Frame {
	var out []*Frame
	if fr.spec != nil {
		out = append(out, fr)
	}
	for h := fr.host; h != nil; h = h.host {
		if h.spec != nil {
			out = append(out, h)
		}
	}
	return out
}

func (fr *Frame) assertAtStore(a Val, v Val) {
	if a.Src == nil || a.Src.kind != "field" {
		return
	}
	for _, o := range fr.clauseFrames() {
		fr.assertAtStoreFor(o, a, v)
	}
}

// a whole-array (or whole-struct) field assigned in one statement: its address carries no per-field source, so the
// clause is matched on the field-address instruction itself
func (fr *Frame) assertAtStoreField(skey, fname, base string, v Val) {
	a := Val{Src: &addrSrc{kind: "field", base: base, skey: skey, fname: fname}}
	for _, o := range fr.clauseFrames() {
		fr.assertAtStoreFor(o, a, v)
	}
}

func (fr *Frame) assertAtStoreFor(o *Frame, a Val, v Val) {
	for _, c := range o.spec.Asserts {
		if !strings.HasPrefix(c.Key, "store ") {
			continue
		}
		sel := strings.TrimPrefix(c.Key, "store ")
		short := a.Src.skey
		if i := strings.LastIndex(short, "."); i >= 0 {
			short = short[i+1:]
		}
		if sel != short+"."+a.Src.fname && sel != a.Src.skey+"."+a.Src.fname {
			continue
		}
		env := o.envAt(o.block, o.idx, fr.cur.st, nil)
		o.matched[c] = true
		env.names["target"] = Val{T: a.Src.base, Ty: types.Typ[types.UnsafePointer]}
		env.names["value"] = v
		t, err := env.Goal(c.Expr)
		if err != nil {
			fr.e.unsupported = append(fr.e.unsupported, fmt.Sprintf("%s: assert-at %s:%d: %v", fr.prefix, c.File, c.Line, err))
			continue
		}
		fr.obligeAt(fr.cur.reach, "assert-at", "store("+sel+")["+labelOr(c)+"]", t, c.Src)
	}
}

func (fr *Frame) assertAtCall(calleeName string, args []Val, sig *types.Signature) {
	// statements moved into a helper that did not exist at the baseline (shape.go) are still statements of the
	// function under contract: its un-numbered call clauses apply to the helper's call sites, evaluated in the
	// host's environment at the point where the helper is called
	for h := fr.host; h != nil; h = h.host {
		if h.spec == nil {
			continue
		}
		for _, c := range h.spec.Asserts {
			if !strings.HasPrefix(c.Key, "call ") {
				continue
			}
			sel := strings.TrimPrefix(c.Key, "call ")
			want := -1
			if i := strings.LastIndex(sel, "#"); i > 0 {
				fmt.Sscanf(sel[i+1:], "%d", &want)
				sel = sel[:i]
			}
			if !calleeMatches(calleeName, sel) {
				continue
			}
			if want > 0 && want != fr.sourceOrdinal(sel) {
				continue
			}
			h.matched[c] = true
			env := h.envAt(h.block, h.idx, fr.cur.st, nil)
			for i, a := range args {
				env.names[fmt.Sprintf("arg%d", i)] = a
			}
			t, err := env.Goal(c.Expr)
			if err != nil {
				fr.e.unsupported = append(fr.e.unsupported, fmt.Sprintf("%s: assert-at %s:%d: %v", fr.prefix, c.File, c.Line, err))
				continue
			}
			fr.obligeAt(fr.cur.reach, "assert-at", "call("+sel+")["+labelOr(c)+"]", t, c.Src)
		}
	}
	if fr.spec == nil {
		return
	}
	for _, c := range fr.spec.Asserts {
		if !strings.HasPrefix(c.Key, "call ") {
			continue
		}
		sel := strings.TrimPrefix(c.Key, "call ")
		want := -1
		if i := strings.LastIndex(sel, "#"); i > 0 {
			fmt.Sscanf(sel[i+1:], "%d", &want)
			sel = sel[:i]
		}
		if !calleeMatches(calleeName, sel) {
			continue
		}
		if want > 0 && want != fr.sourceOrdinal(sel) {
			continue
		}
		fr.matched[c] = true
		env := fr.envAt(fr.block, fr.idx, fr.cur.st, nil)
		for i, a := range args {
			env.names[fmt.Sprintf("arg%d", i)] = a
		}
		t, err := env.Goal(c.Expr)
		if err != nil {
			if c.Optional && (strings.Contains(err.Error(), "cannot resolve identifier") || strings.Contains(err.Error(), "no such call before this point")) {
				// a `call?` clause about a variable that is not defined yet at this call site says nothing here
				continue
			}
			fr.e.unsupported = append(fr.e.unsupported, fmt.Sprintf("%s: assert-at %s:%d: %v", fr.prefix, c.File, c.Line, err))
			continue
		}
		fr.obligeAt(fr.cur.reach, "assert-at", "call("+sel+")["+labelOr(c)+"]", t, c.Src)
	}
}

func calleeMatches(full, sel string) bool {
	if full == sel {
		return true
	}
	// match on the trailing name: pkg.Func, (*T).M, T.M, M
	f := full
	if strings.HasSuffix(f, "."+sel) || strings.HasSuffix(f, ")."+sel) {
		return true
	}
	// (*pkg/path.T).M  vs  (*T).M or T.M
	if i := strings.LastIndex(f, "/"); i >= 0 {
		f = f[i+1:]
	}
	f = strings.NewReplacer("(*", "", "(", "", ")", "").Replace(f)
	// now pkg.T.M
	parts := strings.Split(f, ".")
	s := strings.NewReplacer("(*", "", "(", "", ")", "").Replace(sel)
	for i := range parts {
		if strings.Join(parts[i:], ".") == s {
			return true
		}
	}
	return false
}

// ------------------------------------------------------------------ calls

func (fr *Frame) callCommon(cc *ssa.CallCommon, args []Val, fv Val, res ssa.Value, how string) Val {
	e := fr.e
	var resT types.Type
	if res != nil {
		resT = res.Type()
	} else {
		resT = cc.Signature().Results()
	}
	if cc.IsInvoke() {
		recv := fv
		fr.nilCheck(recv, "invoke("+fr.stableName(cc.Value)+"."+cc.Method.Name()+")")
		name := cc.Method.FullName()
		all := append([]Val{recv}, args...)
		defer func() { fr.assumeAtCall(name) }()
		fr.assertAtCall(name, all, cc.Signature())
		fr.effectCheckCallee(nil, name)
		// a contract given for the static interface type of the receiver (e.g. (hash.Hash).Write) takes precedence
		// over one for the interface that declares the method ((io.Writer).Write)
		if sname := "(" + cc.Value.Type().String() + ")." + cc.Method.Name(); sname != name {
			if sp := e.specs.Funcs[sname]; sp != nil {
				sp.Used = true
				return fr.applyContract(sp, sname, cc.Method.Type().(*types.Signature), all, true, resT)
			}
		}
		if sp := e.specs.Funcs[name]; sp != nil {
			sp.Used = true
			return fr.applyContract(sp, name, cc.Method.Type().(*types.Signature), all, true, resT)
		}
		e.havocCallees[name] = true
		return fr.havocCall(name, resT, nil)
	}
	if b, ok := cc.Value.(*ssa.Builtin); ok {
		return fr.builtin(b, cc, args, resT)
	}
	var callee *ssa.Function
	var bindings []Val
	if fn := cc.StaticCallee(); fn != nil {
		callee = fn
		if mc, ok := cc.Value.(*ssa.MakeClosure); ok {
			for _, b := range mc.Bindings {
				bindings = append(bindings, fr.val(b))
			}
		}
	} else if fv.Clo != nil {
		callee = fv.Clo.Fn
		bindings = fv.Clo.Bindings
	}
	if callee == nil {
		// call through a package-level function variable that is only ever set by its initialiser
		if u, ok := cc.Value.(*ssa.UnOp); ok {
			if g, ok := u.X.(*ssa.Global); ok {
				if f := e.globalFunc(g); f != nil {
					callee = f
				}
			}
		}
	}
	if callee == nil {
		dynName := dynCallName(cc)
		fr.assertAtCall(dynName, args, cc.Signature())
		if sp := e.specs.Funcs[dynName]; sp != nil {
			// an assumed contract for calls through this struct field / variable (e.g. callbacks of a dependency)
			sp.Used = true
			e.assume("calls through " + dynName + " follow the assumed contract given for it")
			return fr.applyContract(sp, dynName, cc.Signature(), args, false, resT)
		}
		e.havocCallees["<dynamic call in "+fr.prefix+">"] = true
		return fr.havocCall("dynamic", resT, nil)
	}
	name := e.fnName(callee)
	if runsLater[name] {
		for _, a := range cc.Args {
			fr.captureCheck(a, shortName(name))
		}
	}
	fr.assertAtCall(name, args, callee.Signature)
	fr.effectCheckCallee(callee, name)
	defer func() { fr.assumeAtCall(name) }()
	lockInvAfter := func() {}
	if (name == "(*sync.Mutex).Lock" || name == "(*sync.Mutex).Unlock" || name == "(*sync.RWMutex).Lock" || name == "(*sync.RWMutex).Unlock") && len(args) > 0 && fr.usesLockInv() {
		for _, li := range e.specs.LockInvs {
			pfx := "(" + sym("fa$"+shortPath(li.Type)+"$"+li.Mu) + " "
			if !strings.HasPrefix(args[0].T, pfx) {
				continue
			}
			base := strings.TrimSuffix(strings.TrimPrefix(args[0].T, pfx), ")")
			li := li
			mkEnv := func() *Env {
				env := fr.envAt(fr.block, fr.idx, fr.cur.st, nil)
				env.lookup = nil
				if p := e.pkgTypes(li.Pkg); p != nil {
					env.pkg = p
				}
				if t := e.globalType("*" + li.Type); t != nil {
					env.names["this"] = Val{T: base, Ty: t}
				}
				return env
			}
			if strings.HasSuffix(name, ".Unlock") {
				t, err := mkEnv().Goal(li.Expr)
				if err != nil {
					e.unsupported = append(e.unsupported, fmt.Sprintf("%s: lock invariant of %s: %v", fr.prefix, li.Type, err))
				} else {
					fr.obligeAt(fr.cur.reach, "unlock-inv", shortName(li.Type)+"."+li.Mu, t, li.Src)
				}
			} else {
				lockInvAfter = func() {
					// other threads may have run: everything the lock protects is arbitrary, but the invariant holds
					for _, h := range li.Havocs {
						if g, ok := e.specs.Ghosts[h]; ok {
							e.havocComp(fr.cur.st, e.comp("ghost$"+g.Name, g.Sort))
							continue
						}
						if cs, err := e.modTargetComps(h, &FuncSpec{Pkg: li.Pkg}, types.NewSignatureType(nil, nil, nil, nil, nil, false)); err == nil {
							for _, c := range cs {
								e.havocComp(fr.cur.st, c)
							}
						} else {
							e.unsupported = append(e.unsupported, fmt.Sprintf("%s: lock invariant havocs %q: %v", fr.prefix, h, err))
						}
					}
					env := mkEnv()
					env.st = fr.cur.st
					t, err := env.Bool(li.Expr)
					if err == nil {
						e.sc.emit("; lock invariant assumed at acquisition: " + li.Src)
						fr.assumeHere(t)
						e.noteFacts(env, li.Expr, fr.cur.reach)
						e.assume("lock invariant of " + li.Type + "." + li.Mu + " holds whenever the lock is acquired (established by every critical section that is checked with it)")
					}
				}
			}
		}
	}
	defer func() { lockInvAfter() }()
	if (name == "(*sync.Mutex).Lock" || name == "(*sync.Mutex).Unlock" || name == "(*sync.RWMutex).Lock" || name == "(*sync.RWMutex).Unlock") && len(args) > 0 {
		for _, ls := range e.specs.LockSets {
			pfx := "(" + sym("fa$"+shortPath(ls.Type)+"$"+ls.Mu) + " "
			if strings.HasPrefix(args[0].T, pfx) {
				if gv, ok := e.specs.Ghosts[ls.Ghost]; ok {
					c := e.comp("ghost$"+gv.Name, gv.Sort)
					if strings.HasSuffix(name, ".Lock") {
						e.set(fr.cur.st, c, "true")
					} else {
						e.set(fr.cur.st, c, "false")
					}
				}
			}
		}
	}
	sp := e.specs.Funcs[name]
	if recv := callee.Signature.Recv(); recv != nil && len(args) > 0 {
		if _, isPtr := recv.Type().Underlying().(*types.Pointer); isPtr && (sp == nil || !sp.Attrs["nilrecv-ok"]) {
			fr.nilCheck(args[0], "recv("+shortName(name)+")")
		}
	}
	if sp != nil {
		sp.Used = true
	}
	isAnon := callee.Parent() != nil
	if e.inRepo(callee) && (isAnon && (sp == nil || !sp.Attrs["modular"]) || sp != nil && sp.Attrs["inline"]) {
		if e.inlineDepth < 6 {
			return fr.inline(callee, args, bindings, resT)
		}
	}
	if sp == nil && e.newHelpers[callee] && e.inlineDepth < 6 {
		fr.hostNext = true
		return fr.inline(callee, args, bindings, resT)
	}
	if sp != nil {
		fr.callCallee, fr.callBindings = callee, bindings
		defer func() { fr.callCallee, fr.callBindings = nil, nil }()
		return fr.applyContract(sp, name, callee.Signature, args, false, resT)
	}
	if e.inRepo(callee) {
		// repo function without contract: frame from the body scan, results arbitrary
		mi := e.modOf(callee, map[*ssa.Function]bool{})
		e.havocCallees[name+" (auto-frame)"] = true
		return fr.havocCall(name, resT, mi)
	}
	// external without contract
	e.extDefault[name] = true
	mi := &modInfo{comps: map[string]bool{}}
	return fr.extDefaultCall(name, callee.Signature, args, resT, mi)
}

func (fr *Frame) freshResults(name string, resT types.Type) Val {
	e := fr.e
	short := name
	if i := strings.LastIndex(short, "/"); i >= 0 {
		short = short[i+1:]
	}
	v := fr.freshVal("r$"+sanitize(short), resT)
	bound := func(x Val) {
		fr.boundRef(x)
	}
	if len(v.Tuple) > 0 {
		for _, x := range v.Tuple {
			bound(x)
		}
	} else if _, ok := resT.(*types.Tuple); !ok {
		bound(v)
	}
	_ = e
	return v
}

func (fr *Frame) bumpAlloc() {
	e := fr.e
	a := e.get(fr.cur.st, "alloc")
	na := e.sc.fresh("alloc", "Int")
	e.sc.assert("(>= " + na + " " + a + ")")
	if e.alloc0 != "" {
		e.sc.assert("(>= " + na + " " + e.alloc0 + ")")
	}
	fr.cur.st.comps["alloc"] = na
}

func (fr *Frame) havocCall(name string, resT types.Type, mi *modInfo) Val {
	e := fr.e
	if mi == nil || mi.all {
		if e.topSpec != nil && e.topSpec.HasMod && !e.modAll {
			fr.oblige("frame", "call("+shortName(name)+")", "false")
		}
		fr.cur.st = e.totalHavoc(fr.cur.st)
	} else {
		for _, c := range sortedKeys(mi.comps) {
			fr.checkFrame(c, "", "call:"+shortName(name))
			e.havocComp(fr.cur.st, c)
		}
		if mi.allocs {
			fr.bumpAlloc()
		}
	}
	return fr.freshResults(name, resT)
}

func shortName(n string) string {
	if i := strings.LastIndex(n, "/"); i >= 0 {
		return n[i+1:]
	}
	return n
}

func (fr *Frame) extDefaultCall(name string, sig *types.Signature, args []Val, resT types.Type, mi *modInfo) Val {
	e := fr.e
	for _, a := range args {
		fr.havocReach(a, "call:"+shortName(name))
	}
	fr.bumpAlloc()
	_ = e
	return fr.freshResults(name, resT)
}

// havoc what an unknown callee can reach directly through argument a
func (fr *Frame) havocReach(a Val, what string) {
	e := fr.e
	if a.Boxed != nil {
		fr.havocReach(*a.Boxed, what)
		return
	}
	if a.Ty == nil {
		return
	}
	switch u := a.Ty.Underlying().(type) {
	case *types.Slice:
		if _, ok := isStruct(u.Elem()); ok {
			return
		}
		if _, ok := u.Elem().Underlying().(*types.Array); ok {
			return
		}
		if a.T == "nilslice" {
			return
		}
		c := e.elemComp(u.Elem())
		// a nil slice reaches nothing: treat array id 0 as always permitted (nothing lives there)
		fr.checkFrame(c, "(ite (= (s_arr "+a.T+") 0) (+ "+e.alloc0+" 1) (s_arr "+a.T+"))", what)
		cur := e.get(fr.cur.st, c)
		na := fr.freshElemArray(u.Elem())
		e.set(fr.cur.st, c, "(store "+cur+" (s_arr "+a.T+") "+na+")")
	case *types.Pointer:
		fr.deepHavoc(a.T, a.Src, u.Elem(), what)
	}
}

func (fr *Frame) freshElemArray(et types.Type) string {
	e := fr.e
	srt := "(Array Int " + e.sortOf(et) + ")"
	na := e.sc.fresh("elems", srt)
	if r := e.rangeOf("(select "+na+" i)", et); r != "" {
		e.sc.assert("(forall ((i Int)) (! " + r + " :pattern ((select " + na + " i))))")
	}
	return na
}

func (fr *Frame) deepHavoc(addr string, src *addrSrc, t types.Type, what string) {
	e := fr.e
	switch u := t.Underlying().(type) {
	case *types.Struct:
		key := e.structKey(t)
		if n, ok := t.(*types.Named); ok && n.Obj().Pkg() != nil && !strings.HasPrefix(n.Obj().Pkg().Path(), "massnet.org/mass") {
			return // external struct: fields not modelled
		}
		for i := 0; i < u.NumFields(); i++ {
			f := u.Field(i)
			if c, ok := e.fieldComp(key, f); ok {
				fr.checkFrame(c, addr, what)
				v := fr.freshVal("hv$"+f.Name(), f.Type())
				e.set(fr.cur.st, c, "(store "+e.get(fr.cur.st, c)+" "+addr+" "+v.T+")")
			} else {
				fa := e.fa(key, f.Name(), addr)
				fr.deepHavoc(fa, nil, f.Type(), what)
			}
		}
	case *types.Array:
		if _, ok := isStruct(u.Elem()); ok {
			return
		}
		c := e.elemComp(u.Elem())
		fr.checkFrame(c, addr, what)
		e.set(fr.cur.st, c, "(store "+e.get(fr.cur.st, c)+" "+addr+" "+fr.freshElemArray(u.Elem())+")")
	default:
		v := fr.freshVal("hv", t)
		comps := map[string]bool{}
		e.compsOfStore(src, t, comps)
		for c := range comps {
			tgt := addr
			if src != nil && src.kind == "field" {
				tgt = src.base
			}
			fr.checkFrame(c, tgt, what)
		}
		e.storeAt(fr.cur.st, addr, src, t, v.T)
	}
}

// inline a callee body at the current point
func (fr *Frame) inline(callee *ssa.Function, args []Val, bindings []Val, resT types.Type) Val {
	e := fr.e
	e.inlineDepth++
	defer func() { e.inlineDepth-- }()
	name := e.fnName(callee)
	short := shortName(name)
	fr.ordinal["inline:"+short]++
	pfx := fr.prefix + ">" + short
	if n := fr.ordinal["inline:"+short]; n > 1 {
		pfx = fmt.Sprintf("%s@%d", pfx, n)
	}
	sub := e.newFrame(callee, pfx)
	sub.params = args
	for i, p := range callee.Params {
		if i < len(args) {
			sub.vals[p] = args[i]
		}
	}
	sub.free = bindings
	for i, f := range callee.FreeVars {
		if i < len(bindings) {
			sub.vals[f] = bindings[i]
		}
	}
	sub.inlined = true
	if fr.hostNext {
		fr.hostNext = false
		sub.host = fr
		if fr.block != nil && fr.idx >= 0 && fr.idx < len(fr.block.Instrs) {
			sub.virtOffset = fr.virtBase[fr.block.Instrs[fr.idx]]
		}
	}
	outReach, outSt, results := sub.exec(fr.cur.reach, fr.cur.st)
	fr.cur = &Cur{outReach, outSt}
	if sub.host != nil {
		// results of calls made by the helper are results of calls made by the host
		for k, v := range sub.lastRes {
			fr.lastRes[k] = v // numbered keys are already relative to the outermost host (sourceOrdinal)
		}
	}
	if _, ok := resT.(*types.Tuple); ok {
		return Val{Tuple: results, Ty: resT}
	}
	if len(results) == 1 {
		return results[0]
	}
	if len(results) == 0 {
		return Val{T: "0", Ty: resT}
	}
	return Val{Tuple: results, Ty: resT}
}

// apply a contract at a call site
func (fr *Frame) applyContract(sp *FuncSpec, name string, sig *types.Signature, args []Val, invoke bool, resT types.Type) Val {
	e := fr.e
	short := shortName(name)
	env := &Env{e: e, names: map[string]Val{}}
	env.pkg = e.pkgTypes(sp.Pkg)
	if env.pkg == nil {
		// external contract: resolve names in the callee's package if we know it
		if sig.Recv() != nil && sig.Recv().Pkg() != nil {
			env.pkg = sig.Recv().Pkg()
		} else if sig.Params().Len() > 0 && sig.Params().At(0).Pkg() != nil {
			env.pkg = sig.Params().At(0).Pkg()
		} else if sig.Results().Len() > 0 && sig.Results().At(0).Pkg() != nil {
			env.pkg = sig.Results().At(0).Pkg()
		}
	}
	ai := 0
	if sig.Recv() != nil || invoke {
		if len(args) > 0 {
			env.names["this"] = args[0]
			if sig.Recv() != nil && sig.Recv().Name() != "" && sig.Recv().Name() != "_" {
				env.names[sig.Recv().Name()] = args[0]
			}
		}
		ai = 1
	}
	for i := 0; i < sig.Params().Len(); i++ {
		if ai+i >= len(args) {
			break
		}
		p := sig.Params().At(i)
		if p.Name() != "" && p.Name() != "_" {
			env.names[p.Name()] = args[ai+i]
		}
		env.names[fmt.Sprintf("arg%d", i)] = args[ai+i]
	}
	// a closure called under its own contract: its captured variables are visible by name
	if fr.callCallee != nil && len(fr.callBindings) == len(fr.callCallee.FreeVars) {
		for i, fv := range fr.callCallee.FreeVars {
			b := fr.callBindings[i]
			if p, ok := b.Ty.Underlying().(*types.Pointer); ok {
				if _, exists := env.names[fv.Name()]; !exists {
					env.names[fv.Name()] = Val{T: e.loadAt(fr.cur.st, b.T, b.Src, p.Elem()), Ty: p.Elem()}
				}
			}
		}
	}
	// integer- and string-valued arguments are candidate instantiation terms for quantified facts
	for _, a := range args {
		if a.Ty != nil && a.T != "" && (isStr(a.Ty) || isInt(a.Ty)) && len(a.T) < 200 {
			e.noteIndexTerm(a.T)
		}
	}
	pre := fr.cur.st.clone()
	env.st = pre
	env.old = pre
	for _, c := range sp.Requires {
		t, err := env.Goal(c.Expr)
		if err != nil {
			if strings.Contains(c.File, "/contracts/ext/") && strings.Contains(err.Error(), "type") {
				// an assumed contract of a dependency that talks about types this package set does not load:
				// the clause cannot concern these functions (same rule as for axioms)
				e.assume("clause " + labelOr(c) + " of " + short + " not applicable in this package set (" + err.Error() + ")")
				continue
			}
			e.unsupported = append(e.unsupported, fmt.Sprintf("%s: requires of %s (%s:%d): %v", fr.prefix, short, c.File, c.Line, err))
			fr.oblige("pre@"+short, labelOr(c), "false")
			continue
		}
		fr.obligeAt(fr.cur.reach, "pre@"+short, labelOr(c), t, c.Src)
	}
	// modifies
	if !sp.HasMod {
		if fn := e.fnByName[name]; fn != nil && e.inRepo(fn) {
			// contract without a modifies clause on a repo function: frame from the body scan
			mi := e.modOf(fn, map[*ssa.Function]bool{})
			if mi.all {
				if e.topSpec != nil && e.topSpec.HasMod && !e.modAll {
					fr.oblige("frame", "call("+short+")", "false")
				}
				fr.cur.st = e.totalHavoc(fr.cur.st)
			} else {
				for _, c := range sortedKeys(mi.comps) {
					fr.checkFrame(c, "", "call:"+short)
					e.havocComp(fr.cur.st, c)
				}
				if mi.allocs {
					fr.bumpAlloc()
				}
			}
		} else {
			if e.topSpec != nil && e.topSpec.HasMod && !e.modAll {
				fr.oblige("frame", "call("+short+")", "false")
			}
			fr.cur.st = e.totalHavocG(fr.cur.st, false)
		}
	} else {
		for _, m := range sp.Modifies {
			fr.applyModifies(m, sp, sig, env, args, short)
		}
		if !sp.Attrs["pure"] {
			fr.bumpAlloc()
		}
	}
	res := fr.freshResults(name, resT)
	// bind results
	var rvals []Val
	if len(res.Tuple) > 0 {
		rvals = res.Tuple
	} else if sig.Results().Len() == 1 {
		rvals = []Val{res}
	}
	for i := 0; i < sig.Results().Len() && i < len(rvals); i++ {
		if n := sig.Results().At(i).Name(); n != "" && n != "_" {
			env.names[n] = rvals[i]
		}
		env.names[fmt.Sprintf("result%d", i)] = rvals[i]
		if i == sig.Results().Len()-1 && (sig.Results().At(i).Name() == "" || sig.Results().At(i).Name() == "_") && sig.Results().At(i).Type().String() == "error" {
			env.names["err"] = rvals[i]
		}
	}
	if len(rvals) > 0 {
		env.names["result"] = rvals[0]
	}
	env.st = fr.cur.st
	for _, c := range sp.Ensures {
		cx := c.Expr
		if strings.Contains(c.Src, "lastresult(") {
			// conjuncts that talk about calls inside the callee are meaningful only when the callee itself is
			// verified: drop them here (assuming less is sound), keep the rest of the clause
			cx = dropLastresult(cx)
			if cx == nil {
				continue
			}
		}
		t, err := env.Bool(cx)
		if err != nil {
			if sp.Pkg == "" && strings.Contains(err.Error(), "cannot resolve type") {
				// an assumed contract of a dependency that mentions a type none of the loaded packages knows: no value
				// of that type exists in the code under verification; assuming less is sound
				continue
			}
			e.unsupported = append(e.unsupported, fmt.Sprintf("%s: ensures of %s (%s:%d): %v", fr.prefix, short, c.File, c.Line, err))
			continue
		}
		e.sc.emit("; assume ensures of " + short + ": " + c.Src)
		fr.assumeHere(t)
		e.noteFacts(env, cx, fr.cur.reach)
	}
	// a fresh slice result that never leaves the caller keeps its contents across calls to unknown code
	if rv, ok := fr.curInstrValue(); ok {
		if sl, isSl := rv.Type().Underlying().(*types.Slice); isSl && e.sliceStaysLocal(rv) {
			freshRes := false
			for _, c := range sp.Ensures {
				if strings.Contains(c.Src, "fresh(result)") || strings.Contains(c.Src, "fresh(result0)") {
					freshRes = true
				}
			}
			if _, isS := isStruct(sl.Elem()); freshRes && !isS {
				if _, isA := sl.Elem().Underlying().(*types.Array); !isA {
					e.localCells = append(e.localCells, localCell{e.elemComp(sl.Elem()), "(s_arr " + res.T + ")"})
				}
			}
		}
	}
	for _, c := range sp.Sets {
		gname := strings.SplitN(c.Key, "[", 2)[0]
		g, ok := e.specs.Ghosts[gname]
		if !ok {
			e.unsupported = append(e.unsupported, fmt.Sprintf("%s: sets: unknown ghost %s", short, c.Key))
			continue
		}
		v, err := env.Val(c.Expr)
		if err != nil {
			e.unsupported = append(e.unsupported, fmt.Sprintf("%s: sets %s: %v", short, c.Key, err))
			continue
		}
		comp := e.comp("ghost$"+g.Name, g.Sort)
		if strings.Contains(c.Key, "[") && strings.HasSuffix(c.Key, "]") {
			ix, err := ParseExpr(c.Key[len(gname)+1 : len(c.Key)-1])
			if err != nil {
				e.unsupported = append(e.unsupported, fmt.Sprintf("%s: sets %s: %v", short, c.Key, err))
				continue
			}
			iv, err := env.Val(ix)
			if err != nil {
				e.unsupported = append(e.unsupported, fmt.Sprintf("%s: sets %s: %v", short, c.Key, err))
				continue
			}
			e.set(fr.cur.st, comp, "(store "+e.get(fr.cur.st, comp)+" "+iv.T+" "+v.T+")")
		} else {
			e.set(fr.cur.st, comp, v.T)
		}
	}
	if sp.Trusted {
		e.assume("trusted contract: " + name)
	}
	return res
}

func (fr *Frame) applyModifies(m string, sp *FuncSpec, sig *types.Signature, env *Env, args []Val, short string) {
	e := fr.e
	st := fr.cur.st
	m = strings.TrimSpace(m)
	what := "call:" + short
	unknownType := false
	fail := func(err error) {
		if sp.Pkg == "" && strings.Contains(err.Error(), "cannot resolve type") {
			// a ghost entry addressed through a type none of the loaded packages knows (see ensures above): no such
			// entry can be named by any contract of the loaded code
			unknownType = true
			return
		}
		e.unsupported = append(e.unsupported, fmt.Sprintf("%s: modifies %q of %s: %v", fr.prefix, m, short, err))
		fr.cur.st = e.totalHavoc(fr.cur.st)
	}
	_ = unknownType
	if m == "*" || m == "heap" {
		if e.topSpec != nil && e.topSpec.HasMod && !e.modAll {
			fr.oblige("frame", "call("+short+")", "false")
		}
		fr.cur.st = e.totalHavocG(fr.cur.st, m == "heap")
		return
	}
	gname := strings.SplitN(m, "[", 2)[0]
	if g, ok := e.specs.Ghosts[gname]; ok {
		c := e.comp("ghost$"+g.Name, g.Sort)
		if strings.Contains(m, "[") && strings.HasSuffix(m, "]") {
			idx := m[len(gname)+1 : len(m)-1]
			ex, err := ParseExpr(idx)
			if err != nil {
				fail(err)
				return
			}
			iv, err := env.Val(ex)
			if err != nil {
				fail(err)
				return
			}
			fr.checkFrame(c, iv.T, what)
			inner := strings.TrimSuffix(strings.TrimPrefix(g.Sort, "(Array Int "), ")")
			nv := e.sc.fresh("ghost$"+g.Name+"$v", inner)
			e.set(st, c, "(store "+e.get(st, c)+" "+iv.T+" "+nv+")")
			return
		}
		fr.checkFrame(c, "", what)
		e.havocComp(st, c)
		return
	}
	if strings.HasPrefix(m, "elems(") {
		cs, err := e.modTargetComps(m, sp, sig)
		if err != nil {
			fail(err)
			return
		}
		for _, c := range cs {
			fr.checkFrame(c, "", what)
			e.havocComp(st, c)
		}
		return
	}
	if strings.HasPrefix(m, "deep(") && strings.HasSuffix(m, ")") {
		ex, err := ParseExpr(m[5 : len(m)-1])
		if err != nil {
			fail(err)
			return
		}
		v, err := env.Val(ex)
		if err != nil {
			fail(err)
			return
		}
		fr.havocReach(v, what)
		return
	}
	if strings.HasSuffix(m, "[*]") || strings.HasSuffix(m, "[:]") {
		lenOnly := strings.HasSuffix(m, "[:]")
		ex, err := ParseExpr(strings.TrimSuffix(strings.TrimSuffix(m, "[*]"), "[:]"))
		if err != nil {
			fail(err)
			return
		}
		v, err := env.Val(ex)
		if err != nil {
			fail(err)
			return
		}
		switch u := v.Ty.Underlying().(type) {
		case *types.Slice:
			c := e.elemComp(u.Elem())
			if lenOnly {
				fr.frameLo, fr.frameHi = "(s_off "+v.T+")", "(+ (s_off "+v.T+") (s_len "+v.T+"))"
			} else {
				fr.frameLo, fr.frameHi = "(s_off "+v.T+")", "(+ (s_off "+v.T+") (s_cap "+v.T+"))"
			}
			fr.checkFrame(c, "(s_arr "+v.T+")", what)
			fr.frameLo, fr.frameHi = "", ""
			cur := e.get(st, c)
			// only positions inside [off, off+cap) may change
			na := fr.freshElemArray(u.Elem())
			old := "(select " + cur + " (s_arr " + v.T + "))"
			ext := "(s_cap " + v.T + ")"
			if lenOnly {
				ext = "(s_len " + v.T + ")"
			}
			e.sc.assert(fmt.Sprintf("(forall ((i Int)) (! (=> (or (< i (s_off %[1]s)) (>= i (+ (s_off %[1]s) %[4]s))) (= (select %[2]s i) (select %[3]s i))) :pattern ((select %[2]s i))))", v.T, na, old, ext))
			e.set(st, c, "(store "+cur+" (s_arr "+v.T+") "+na+")")
		case *types.Map:
			d, vv := e.mapComps(u)
			for _, c := range []string{d, vv} {
				fr.checkFrame(c, v.T, what)
				cur := e.get(st, c)
				inner := strings.TrimSuffix(strings.TrimPrefix(e.compSort[c], "(Array Int "), ")")
				e.set(st, c, "(store "+cur+" "+v.T+" "+e.sc.fresh("mapcontents", inner)+")")
			}
		case *types.Pointer:
			if arr, ok := u.Elem().Underlying().(*types.Array); ok {
				c := e.elemComp(arr.Elem())
				fr.checkFrame(c, v.T, what)
				e.set(st, c, "(store "+e.get(st, c)+" "+v.T+" "+fr.freshElemArray(arr.Elem())+")")
			} else {
				fail(fmt.Errorf("[*] on pointer to non-array"))
			}
		default:
			fail(fmt.Errorf("[*] on %s", v.Ty))
		}
		return
	}
	if strings.HasPrefix(m, "*") {
		ex, err := ParseExpr(m[1:])
		if err != nil {
			fail(err)
			return
		}
		v, err := env.Val(ex)
		if err != nil {
			fail(err)
			return
		}
		if p, ok := v.Ty.Underlying().(*types.Pointer); ok {
			fr.deepHavoc(v.T, v.Src, p.Elem(), what)
			return
		}
		fail(fmt.Errorf("*x on non-pointer"))
		return
	}
	if i := strings.LastIndex(m, "."); i > 0 {
		base, fname := m[:i], m[i+1:]
		ex, err := ParseExpr(base)
		var bv Val
		isExpr := false
		if err == nil {
			if v, err2 := env.Val(ex); err2 == nil {
				if _, ok := v.Ty.Underlying().(*types.Pointer); ok {
					bv = v
					isExpr = true
				}
			}
		}
		if isExpr {
			pt := bv.Ty.Underlying().(*types.Pointer).Elem()
			s, ok := isStruct(pt)
			if !ok {
				fail(fmt.Errorf("%s not a struct pointer", base))
				return
			}
			f, path := findField(s, fname)
			if f == nil || len(path) != 1 {
				fail(fmt.Errorf("no direct field %s", fname))
				return
			}
			key := e.structKey(pt)
			if c, ok := e.fieldComp(key, f); ok {
				fr.checkFrame(c, bv.T, what)
				v := fr.freshVal("hv$"+fname, f.Type())
				e.set(st, c, "(store "+e.get(st, c)+" "+bv.T+" "+v.T+")")
			} else {
				fa := e.fa(key, f.Name(), bv.T)
				fr.deepHavoc(fa, nil, f.Type(), what)
			}
			return
		}
		cs, err := e.modTargetComps(m, sp, sig)
		if err != nil {
			fail(err)
			return
		}
		for _, c := range cs {
			fr.checkFrame(c, "", what)
			e.havocComp(st, c)
		}
		return
	}
	fail(fmt.Errorf("unsupported target"))
}

// ------------------------------------------------------------------ builtins

func (fr *Frame) builtin(b *ssa.Builtin, cc *ssa.CallCommon, args []Val, resT types.Type) Val {
	e := fr.e
	st := fr.cur.st
	switch b.Name() {
	case "len":
		a := args[0]
		switch u := a.Ty.Underlying().(type) {
		case *types.Slice:
			return Val{T: "(s_len " + a.T + ")", Ty: resT}
		case *types.Basic:
			return Val{T: "(slen " + a.T + ")", Ty: resT}
		case *types.Array:
			return Val{T: fmt.Sprint(u.Len()), Ty: resT}
		case *types.Pointer:
			if arr, ok := u.Elem().Underlying().(*types.Array); ok {
				return Val{T: fmt.Sprint(arr.Len()), Ty: resT}
			}
		case *types.Map:
			if a.From != nil {
				fr.lockCheck(Val{Src: a.From}, false)
			}
			f := e.sc.declFun("maplen", []string{"(Array " + e.sortOf(u.Key()) + " Bool)"}, "Int")
			dom, _ := e.mapComps(u)
			r := "(" + f + " (select " + e.get(st, dom) + " " + a.T + "))"
			fr.assumeHere("(>= " + r + " 0)")
			// an empty map has no key (the only link between len and membership the contracts need)
			ks := e.sortOf(u.Key())
			d := "(select " + e.get(st, dom) + " " + a.T + ")"
			fr.assumeHere(fmt.Sprintf("(=> (= %s 0) (forall ((k$ %s)) (! (not (select %s k$)) :pattern ((select %s k$)))))", r, ks, d, d))
			return Val{T: r, Ty: resT}
		}
		v := fr.freshVal("len", resT)
		fr.assumeHere("(>= " + v.T + " 0)")
		return v
	case "cap":
		a := args[0]
		if _, ok := a.Ty.Underlying().(*types.Slice); ok {
			return Val{T: "(s_cap " + a.T + ")", Ty: resT}
		}
		v := fr.freshVal("cap", resT)
		fr.assumeHere("(>= " + v.T + " 0)")
		return v
	case "append":
		return fr.doAppend(args, resT)
	case "copy":
		dst, src := args[0], args[1]
		n := e.sc.define("copyn", "Int", "(imin (s_len "+dst.T+") "+lenOf(src)+")")
		if sl, ok := dst.Ty.Underlying().(*types.Slice); ok {
			c := e.elemComp(sl.Elem())
			fr.frameLo, fr.frameHi = "(s_off "+dst.T+")", "(+ (s_off "+dst.T+") "+n+")"
			fr.checkFrame(c, "(s_arr "+dst.T+")", "copy")
			fr.frameLo, fr.frameHi = "", ""
			cur := e.get(st, c)
			na := e.sc.fresh("copied", "(Array Int "+e.sortOf(sl.Elem())+")")
			old := "(select " + cur + " (s_arr " + dst.T + "))"
			var srcAt string
			if isStr(src.Ty) {
				srcAt = fmt.Sprintf("(sat %s (- i (s_off %s)))", src.T, dst.T)
			} else {
				srcAt = fmt.Sprintf("(select (select %s (s_arr %s)) (+ (s_off %s) (- i (s_off %s))))", cur, src.T, src.T, dst.T)
			}
			e.sc.assert(fmt.Sprintf("(forall ((i Int)) (! (= (select %[1]s i) (ite (and (<= (s_off %[2]s) i) (< i (+ (s_off %[2]s) %[3]s))) %[4]s (select %[5]s i))) :pattern ((select %[1]s i))))", na, dst.T, n, srcAt, old))
			e.set(st, c, "(store "+cur+" (s_arr "+dst.T+") "+na+")")
		}
		return Val{T: n, Ty: resT}
	case "delete":
		m, k := args[0], args[1]
		mt := m.Ty.Underlying().(*types.Map)
		dom, _ := e.mapComps(mt)
		if m.From != nil {
			fr.lockCheck(Val{Src: m.From}, true)
		}
		fr.checkFrame(dom, m.T, "delete")
		d := e.get(st, dom)
		e.set(st, dom, fmt.Sprintf("(store %s %s (store (select %s %s) %s false))", d, m.T, d, m.T, k.T))
		return Val{T: "0", Ty: resT}
	case "close":
		closed := e.comp("ghost$closed", "(Array Int Bool)")
		if e.checks("panic") {
			fr.oblige("close", fr.stableName(cc.Args[0]), "(and (not (= "+args[0].T+" 0)) (not (select "+e.get(st, closed)+" "+args[0].T+")))")
		}
		e.set(st, closed, "(store "+e.get(st, closed)+" "+args[0].T+" true)")
		return Val{T: "0", Ty: resT}
	case "print", "println":
		return Val{T: "0", Ty: resT}
	case "min":
		r := args[0].T
		for _, a := range args[1:] {
			r = "(imin " + r + " " + a.T + ")"
		}
		return Val{T: r, Ty: resT}
	case "max":
		r := args[0].T
		for _, a := range args[1:] {
			r = "(imax " + r + " " + a.T + ")"
		}
		return Val{T: r, Ty: resT}
	case "ssa:wrapnilchk":
		fr.nilCheck(args[0], "wrapnilchk")
		return args[0]
	case "recover":
		return Val{T: "0", Ty: resT}
	case "panic":
		fr.oblige("panic", "builtin", sNot(fr.cur.reach))
		return Val{T: "0", Ty: resT}
	}
	e.unsupported = append(e.unsupported, fr.prefix+": builtin "+b.Name())
	return fr.freshVal("builtin", resT)
}

func lenOf(v Val) string {
	if isStr(v.Ty) {
		return "(slen " + v.T + ")"
	}
	return "(s_len " + v.T + ")"
}

func (fr *Frame) doAppend(args []Val, resT types.Type) Val {
	e := fr.e
	st := fr.cur.st
	s, t := args[0], args[1]
	sl := s.Ty.Underlying().(*types.Slice)
	et := sl.Elem()
	_, structElem := isStruct(et)
	_, arrElem := et.Underlying().(*types.Array)
	tl := lenOf(t)
	newLen := e.sc.define("applen", "Int", "(+ (s_len "+s.T+") "+tl+")")
	// nondeterministic choice between in-place and reallocation, decided by capacity
	inPlace := e.sc.define("inplace", "Bool", "(and (<= "+newLen+" (s_cap "+s.T+")) (not (= (s_arr "+s.T+") 0)))")
	fresh := fr.newRef("arr")
	ncap := e.sc.fresh("newcap", "Int")
	e.sc.assert("(and (>= " + ncap + " " + newLen + ") (<= " + ncap + " " + two48 + "))")
	res := e.sc.define("appended", "Slice", fmt.Sprintf("(ite %s (mk_slice (s_arr %s) (s_off %s) %s (s_cap %s)) (mk_slice %s 0 %s %s))", inPlace, s.T, s.T, newLen, s.T, fresh, newLen, ncap))
	if structElem || arrElem {
		e.assume("append on slices of structs/arrays: element contents after append are not tracked")
		return Val{T: res, Ty: resT}
	}
	c := e.elemComp(et)
	// in-place writes touch the old array (frame permission needed only if it can happen)
	fr.checkFrame(c, "(ite "+inPlace+" (s_arr "+s.T+") "+fresh+")", "append")
	cur := e.get(st, c)
	na := e.sc.fresh("appelems", "(Array Int "+e.sortOf(et)+")")
	roff := "(s_off " + res + ")"
	oldS := fmt.Sprintf("(select (select %s (s_arr %s)) (+ (s_off %s) (- i %s)))", cur, s.T, s.T, roff)
	var srcAt string
	if isStr(t.Ty) {
		srcAt = fmt.Sprintf("(sat %s (- i (+ %s (s_len %s))))", t.T, roff, s.T)
	} else {
		srcAt = fmt.Sprintf("(select (select %s (s_arr %s)) (+ (s_off %s) (- i (+ %s (s_len %s)))))", cur, t.T, t.T, roff, s.T)
	}
	other := fmt.Sprintf("(ite %s (select (select %s (s_arr %s)) i) %s)", inPlace, cur, s.T, e.zero(et))
	e.sc.assert(fmt.Sprintf("(forall ((i Int)) (! (= (select %[1]s i) (ite (and (<= %[2]s i) (< i (+ %[2]s (s_len %[3]s)))) %[4]s (ite (and (<= (+ %[2]s (s_len %[3]s)) i) (< i (+ %[2]s %[5]s))) %[6]s %[7]s))) :pattern ((select %[1]s i))))",
		na, roff, s.T, oldS, newLen, srcAt, other))
	e.set(st, c, "(store "+cur+" (s_arr "+res+") "+na+")")
	return Val{T: res, Ty: resT}
}

// ordinal (1-based, in source order) of the current call instruction among the calls of this function
// whose callee matches sel
func (fr *Frame) sourceOrdinal(sel string) int {
	if fr.block == nil || fr.idx < 0 {
		return 0
	}
	// the call is identified by the chain of call sites from the outermost host (shape.go: helpers that are
	// verified as part of their caller) down to the current instruction
	top := fr
	path := []ssa.Instruction{fr.block.Instrs[fr.idx]}
	for top.host != nil {
		top = top.host
		if top.block == nil || top.idx < 0 {
			return 0
		}
		path = append([]ssa.Instruction{top.block.Instrs[top.idx]}, path...)
	}
	all := fr.e.virtualSeq(top.fn, sel, 0)
	for i, c := range all {
		if len(c) != len(path) {
			continue
		}
		same := true
		for k := range c {
			if c[k] != path[k] {
				same = false
			}
		}
		if same {
			return i + 1
		}
	}
	return 0
}

// calls to sel in source order, as if every helper that is verified as part of its caller were written out at its
// call sites (without such helpers this is the plain list of call sites of fn)
func (e *Engine) virtualSeq(fn *ssa.Function, sel string, depth int) [][]ssa.Instruction {
	type cp struct {
		in  ssa.Instruction
		pos int
		seq int
		sub *ssa.Function
	}
	var all []cp
	seq := 0
	for _, b := range fn.Blocks {
		for _, in := range b.Instrs {
			ci, ok := in.(ssa.CallInstruction)
			if !ok {
				continue
			}
			seq++
			cc := ci.Common()
			name := ""
			if cc.IsInvoke() {
				name = cc.Method.FullName()
			} else if f := cc.StaticCallee(); f != nil {
				name = f.String()
				if _, isCall := in.(*ssa.Call); isCall && e.newHelpers[f] && e.specs.Funcs[name] == nil && depth < 6 {
					all = append(all, cp{in, int(in.Pos()), seq, f})
					continue
				}
			} else {
				name = dynCallName(cc)
				if u, ok := cc.Value.(*ssa.UnOp); ok {
					if g, ok := u.X.(*ssa.Global); ok {
						if f := e.globalFunc(g); f != nil {
							name = f.String() // resolved exactly as the call itself is
						}
					}
				}
			}
			if calleeMatches(name, sel) {
				all = append(all, cp{in, int(in.Pos()), seq, nil})
			}
		}
	}
	sort.SliceStable(all, func(i, j int) bool {
		if all[i].pos != all[j].pos {
			return all[i].pos < all[j].pos
		}
		return all[i].seq < all[j].seq
	})
	var out [][]ssa.Instruction
	for _, c := range all {
		if c.sub == nil {
			out = append(out, []ssa.Instruction{c.in})
			continue
		}
		for _, inner := range e.virtualSeq(c.sub, sel, depth+1) {
			out = append(out, append([]ssa.Instruction{c.in}, inner...))
		}
	}
	return out
}

// ------------------------------------------------------------------ effects

// effects of a callee: `attr effect:<name>` in its contract, or (repo function without contract) the union over its body
func (e *Engine) effectsOf(fn *ssa.Function, name string, busy map[*ssa.Function]bool) map[string]bool {
	out := map[string]bool{}
	if sp := e.specs.Funcs[name]; sp != nil {
		for a := range sp.Attrs {
			if strings.HasPrefix(a, "effect:") {
				out[strings.TrimPrefix(a, "effect:")] = true
			}
		}
		// `attr absorbs:<e>`: this function may reach effect e itself but its callers do not inherit it (a sanctioned
		// gateway, e.g. the store helpers that are the only ones allowed to call Bucket.Put)
		absorbs := false
		for a := range sp.Attrs {
			if strings.HasPrefix(a, "absorbs:") {
				absorbs = true
			}
		}
		if absorbs {
			return out
		}
		if fn == nil || !e.inRepo(fn) || len(out) > 0 || sp.HasMod {
			return out
		}
	}
	if fn == nil || !e.inRepo(fn) || busy[fn] {
		return out
	}
	if m, ok := e.effMemo[fn]; ok {
		return m
	}
	busy[fn] = true
	var walk func(f *ssa.Function)
	walk = func(f *ssa.Function) {
		for _, b := range f.Blocks {
			for _, in := range b.Instrs {
				ci, ok := in.(ssa.CallInstruction)
				if !ok {
					continue
				}
				cc := ci.Common()
				var callee *ssa.Function
				cn := ""
				if cc.IsInvoke() {
					cn = cc.Method.FullName()
				} else if c := cc.StaticCallee(); c != nil {
					callee = c
					cn = c.String()
				} else {
					continue
				}
				for k := range e.effectsOf(callee, cn, busy) {
					out[k] = true
				}
			}
		}
		for _, a := range f.AnonFuncs {
			walk(a)
		}
	}
	walk(fn)
	delete(busy, fn)
	if e.effMemo == nil {
		e.effMemo = map[*ssa.Function]map[string]bool{}
	}
	e.effMemo[fn] = out
	return out
}

// a call to an effectful callee is an obligation unless the function under verification declares the effect
func (fr *Frame) effectCheckCallee(callee *ssa.Function, name string) {
	e := fr.e
	effs := e.effectsOf(callee, name, map[*ssa.Function]bool{})
	if len(effs) == 0 {
		return
	}
	for _, k := range sortedKeys(effs) {
		declared := false
		// the top-level function and every enclosing inlined frame's function may declare it
		if e.topSpec != nil && e.topSpec.Attrs["effect:"+k] {
			declared = true
		}
		if fr.spec != nil && (fr.spec.Attrs["effect:"+k] || fr.spec.Attrs["absorbs:"+k]) {
			declared = true
		}
		if e.topSpec != nil && e.topSpec.Attrs["absorbs:"+k] {
			declared = true
		}
		if !declared {
			fr.oblige("effect", k+"@"+shortName(name), sNot(fr.cur.reach))
		}
	}
}

func (e *Engine) isLockGhost(c string) bool {
	if c == "ghost$held" || c == "ghost$rheld" {
		return true
	}
	for _, ls := range e.specs.LockSets {
		if c == "ghost$"+ls.Ghost {
			return true
		}
	}
	return false
}

// the function a package-level func variable is bound to, if its only assignment is in the package initialiser
func (e *Engine) globalFunc(g *ssa.Global) *ssa.Function {
	if g.Pkg == nil {
		return nil
	}
	var found *ssa.Function
	count := 0
	var scan func(fn *ssa.Function)
	scan = func(fn *ssa.Function) {
		for _, b := range fn.Blocks {
			for _, in := range b.Instrs {
				if st, ok := in.(*ssa.Store); ok && st.Addr == ssa.Value(g) {
					count++
					switch v := st.Val.(type) {
					case *ssa.Function:
						found = v
					case *ssa.MakeClosure:
						if f, ok := v.Fn.(*ssa.Function); ok && len(v.Bindings) == 0 {
							found = f
						}
					default:
						count += 10
					}
				}
			}
		}
		for _, a := range fn.AnonFuncs {
			scan(a)
		}
	}
	for _, m := range g.Pkg.Members {
		if fn, ok := m.(*ssa.Function); ok {
			scan(fn)
		}
	}
	if count == 1 {
		return found
	}
	return nil
}

// the address is (a field / element of) a local allocation of the enclosing function
func rootIsLocalAlloc(v ssa.Value) bool {
	for i := 0; i < 8; i++ {
		switch x := v.(type) {
		case *ssa.Alloc:
			return true
		case *ssa.FieldAddr:
			v = x.X
		case *ssa.IndexAddr:
			if _, isSlice := x.X.Type().Underlying().(*types.Slice); isSlice {
				return false
			}
			v = x.X
		default:
			return false
		}
	}
	return false
}

// scanBlocks is used both for whole functions (callee summaries) and for loop bodies of the function being
// executed; only in the latter case are the blocks a strict subset of the function
func blocksAreLoop(fn *ssa.Function, blocks []*ssa.BasicBlock) bool {
	return len(blocks) < len(fn.Blocks)
}

// static type of a contract expression over the parameters of sig (values are dummies; only the type is used)
func (e *Engine) dummyType(sig *types.Signature, pkg string, expr string) (t types.Type) {
	defer func() {
		if r := recover(); r != nil {
			t = nil
		}
	}()
	ex, err := ParseExpr(expr)
	if err != nil {
		return nil
	}
	env := &Env{e: e, pkg: e.pkgTypes(pkg), names: map[string]Val{}, st: &State{comps: map[string]string{}, base: "dummy"}}
	if sig.Recv() != nil {
		env.names["this"] = Val{T: "0", Ty: sig.Recv().Type()}
		if n := sig.Recv().Name(); n != "" && n != "_" {
			env.names[n] = Val{T: "0", Ty: sig.Recv().Type()}
		}
	}
	for i := 0; i < sig.Params().Len(); i++ {
		p := sig.Params().At(i)
		env.names[fmt.Sprintf("arg%d", i)] = Val{T: "0", Ty: p.Type()}
		if p.Name() != "" && p.Name() != "_" {
			env.names[p.Name()] = Val{T: "0", Ty: p.Type()}
		}
	}
	if _, ok := env.names["this"]; !ok {
		// interface method contracts: the receiver is the interface value
		env.names["this"] = Val{T: "0", Ty: types.NewInterfaceType(nil, nil)}
	}
	v, err := env.Val(ex)
	if err != nil {
		return nil
	}
	return v.Ty
}

func (fr *Frame) curInstrValue() (ssa.Value, bool) {
	if fr.block == nil || fr.idx < 0 || fr.idx >= len(fr.block.Instrs) {
		return nil, false
	}
	v, ok := fr.block.Instrs[fr.idx].(ssa.Value)
	return v, ok
}

func (fr *Frame) usesLockInv() bool {
	if fr.spec != nil && fr.spec.Attrs["lockinv"] {
		return true
	}
	return fr.e.topSpec != nil && fr.e.topSpec.Attrs["lockinv"]
}

// rely conditions: assumed right after the matching call
func (fr *Frame) assumeAtCall(calleeName string) {
	for h := fr.host; h != nil; h = h.host {
		if h.spec == nil {
			continue
		}
		for _, c := range h.spec.Assumes {
			sel := strings.TrimPrefix(c.Key, "call ")
			want := -1
			if i := strings.LastIndex(sel, "#"); i > 0 {
				fmt.Sscanf(sel[i+1:], "%d", &want)
				sel = sel[:i]
			}
			if !calleeMatches(calleeName, sel) || want > 0 && want != fr.sourceOrdinal(sel) {
				continue
			}
			h.matched[c] = true
			env := h.envAt(h.block, h.idx, fr.cur.st, nil)
			t, err := env.Bool(c.Expr)
			if err != nil {
				fr.e.unsupported = append(fr.e.unsupported, fmt.Sprintf("%s: assume-at %s:%d: %v", fr.prefix, c.File, c.Line, err))
				continue
			}
			fr.e.sc.emit("; rely condition assumed: " + c.Src)
			fr.assumeHere(t)
			fr.e.noteFacts(env, c.Expr, fr.cur.reach)
			fr.e.assume("rely condition in " + h.prefix + " [" + labelOr(c) + "]: " + c.Src)
		}
	}
	if fr.spec == nil {
		return
	}
	for _, c := range fr.spec.Assumes {
		sel := strings.TrimPrefix(c.Key, "call ")
		want := -1
		if i := strings.LastIndex(sel, "#"); i > 0 {
			fmt.Sscanf(sel[i+1:], "%d", &want)
			sel = sel[:i]
		}
		if !calleeMatches(calleeName, sel) {
			continue
		}
		if want > 0 && want != fr.sourceOrdinal(sel) {
			continue
		}
		fr.matched[c] = true
		env := fr.envAt(fr.block, fr.idx+1, fr.cur.st, nil)
		t, err := env.Bool(c.Expr)
		if err != nil {
			fr.e.unsupported = append(fr.e.unsupported, fmt.Sprintf("%s: assume-at %s:%d: %v", fr.prefix, c.File, c.Line, err))
			continue
		}
		fr.e.sc.emit("; rely condition assumed: " + c.Src)
		fr.assumeHere(t)
		fr.e.noteFacts(env, c.Expr, fr.cur.reach)
		fr.e.assume("rely condition in " + fr.prefix + " [" + labelOr(c) + "]: " + c.Src)
	}
}

func mentionsLastresult(x *Expr) bool {
	if x == nil {
		return false
	}
	if x.Op == "call" && x.Name == "lastresult" {
		return true
	}
	for _, a := range x.Args {
		if mentionsLastresult(a) {
			return true
		}
	}
	return false
}

// dropLastresult removes, from a formula used as an assumption, the conjuncts (under && and on the right of ==>) that
// mention lastresult(...); nil if nothing is left.
func dropLastresult(x *Expr) *Expr {
	if !mentionsLastresult(x) {
		return x
	}
	if x.Op == "binary" && x.Name == "&&" {
		l, r := dropLastresult(x.Args[0]), dropLastresult(x.Args[1])
		switch {
		case l == nil:
			return r
		case r == nil:
			return l
		}
		c := *x
		c.Args = []*Expr{l, r}
		return &c
	}
	if x.Op == "binary" && x.Name == "==>" && !mentionsLastresult(x.Args[0]) {
		r := dropLastresult(x.Args[1])
		if r == nil {
			return nil
		}
		c := *x
		c.Args = []*Expr{x.Args[0], r}
		return &c
	}
	return nil
}

// name under which a call through a function value is known to assert-at / lastresult clauses:
// a package-level variable (pkg/path.Name), a struct field (field.<Name>), or a local variable (its source name)
func dynCallName(cc *ssa.CallCommon) string {
	v := cc.Value
	if u, ok := v.(*ssa.UnOp); ok {
		switch x := u.X.(type) {
		case *ssa.Global:
			return x.Pkg.Pkg.Path() + "." + x.Name()
		case *ssa.FieldAddr:
			if st, ok := x.X.Type().Underlying().(*types.Pointer).Elem().Underlying().(*types.Struct); ok {
				return "field." + st.Field(x.Field).Name()
			}
		case *ssa.Alloc:
			if x.Comment != "" {
				return "var." + x.Comment
			}
		}
	}
	if f, ok := v.(*ssa.Field); ok {
		if st, ok := f.X.Type().Underlying().(*types.Struct); ok {
			return "field." + st.Field(f.Field).Name()
		}
	}
	if n := localValueName(cc); n != "" {
		return "var." + n
	}
	return "dynamic"
}

// source name of an SSA value bound to a local variable by a DebugRef (e.g. `cancel, staled, err := f()`)
func localValueName(cc *ssa.CallCommon) string {
	v := cc.Value
	refs := v.Referrers()
	if refs == nil {
		return ""
	}
	for _, r := range *refs {
		if d, ok := r.(*ssa.DebugRef); ok && !d.IsAddr {
			if id, ok := d.Expr.(*ast.Ident); ok {
				return id.Name
			}
		}
	}
	return ""
}

// callees that run the function they are given after they return (worker pools, timers): a closure handed to them
// inside a loop must not share a per-iteration variable with the loop
var runsLater = map[string]bool{
	"(*github.com/panjf2000/ants/v2.Pool).Submit": true,
	"time.AfterFunc": true,
}

// captureCheck: v is a closure made inside a loop and handed to something that runs it later (a go statement, a
// worker pool). Every variable it captures must either live outside the loop untouched by it or be declared inside
// the loop body (a fresh cell per iteration). A captured variable that is declared outside the innermost enclosing
// loop and assigned inside it (the loop variables of a `for ... := range` before Go 1.22, for instance) is shared by
// all the closures: obligation kind "capture", which cannot be discharged.
func (fr *Frame) captureCheck(v ssa.Value, where string) {
	mc, ok := v.(*ssa.MakeClosure)
	if !ok || fr.block == nil {
		return
	}
	var loop *loopInfo
	for _, li := range fr.loops {
		if li.header != fr.block && !li.body[fr.block] {
			continue
		}
		if loop == nil || len(li.body) < len(loop.body) {
			loop = li
		}
	}
	if loop == nil {
		return
	}
	inLoop := func(b *ssa.BasicBlock) bool { return b == loop.header || loop.body[b] }
	for _, b := range mc.Bindings {
		al, ok := b.(*ssa.Alloc)
		if !ok || inLoop(al.Block()) {
			continue
		}
		assigned := false
		for _, r := range *al.Referrers() {
			if st, ok := r.(*ssa.Store); ok && st.Addr == ssa.Value(al) && inLoop(st.Block()) {
				assigned = true
			}
		}
		fr.oblige("capture", where+"("+al.Comment+")", boolSMT(!assigned))
	}
}

func boolSMT(b bool) string {
	if b {
		return "true"
	}
	return "false"
}
