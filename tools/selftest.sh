#!/bin/bash
# must-fail corpus: every seeded change must be reported by the check of its property (exit 1), and /repo must be
# clean again afterwards.  usage: tools/selftest.sh [name-substring]
cd /verif
[ -z "$(git -C /repo status --porcelain)" ] || { echo "/repo has uncommitted changes"; exit 2; }
bad=0
for d in seeded/*${1:-}*/; do
  n=$(basename $d); id=$(python3 -c "import json;print(json.load(open('$d/meta.json'))['property'])")
  git -C /repo apply /verif/${d}patch.diff || { echo "$n: patch does not apply"; bad=1; continue; }
  [ -f evidence/$id.json ] && cp evidence/$id.json /root/scratch/evidence_keep_$id.json
  s=$(date +%s); out=$(./check $id 2>&1); rc=$?; e=$(date +%s)
  [ -f /root/scratch/evidence_keep_$id.json ] && mv /root/scratch/evidence_keep_$id.json evidence/$id.json
  git -C /repo checkout -- .
  v=$(echo "$out" | grep -c "^VIOLATION")
  if [ $rc -eq 1 ] && [ $v -gt 0 ]; then echo "caught  $n ($id, $v violation lines, $((e-s))s)"; else echo "MISSED  $n ($id rc=$rc)"; bad=1; fi
done
exit $bad
