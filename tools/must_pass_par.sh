#!/bin/bash
# must-pass corpus, W workers on scratch worktrees: every behaviour-preserving change in harmless/ must leave every
# claimed check that loads a touched package at exit 0 (checks that do not load the package cannot see the change).
# usage: tools/must_pass_par.sh [W=3] [name-substring]
W=${1:-3}; sub=${2:-}
cd /verif
[ -z "$(git -C /repo status --porcelain)" ] || { echo "/repo has uncommitted changes (worktrees are made from HEAD)"; exit 2; }
ls -d harmless/*${sub}*/ | sed 's#/$##' > /root/scratch/mp_list.txt
rm -f /root/scratch/mp_out_*.txt
relevant() { # patch -> ids of the claimed checks whose package list contains a touched directory
python3 - "$1" <<'PY'
import json,sys,re,glob
dirs=set()
for l in open(sys.argv[1]):
    m=re.match(r'^\+\+\+ b/(.*)/[^/]+$',l)
    if m: dirs.add('massnet.org/mass/'+m.group(1))
ids=[c['property_id'] for c in json.load(open('/verif/MANIFEST.json'))['checks']]
out=[]
for i in ids:
    p=json.load(open('/verif/props/%s.json'%i))
    if dirs & set(p['packages']): out.append(i)
print(' '.join(out))
PY
}
worker() {
  i=$1; wt=/tmp/wt_mp_$i; vc=/root/scratch/vc_mp_$i
  git -C /repo worktree remove --force $wt >/dev/null 2>&1; rm -rf $wt $vc
  git -C /repo worktree add -q --detach $wt HEAD || exit 2
  mkdir -p $vc; rsync -a --exclude .git --exclude engine --exclude seeded --exclude harmless --exclude replays --exclude evidence /verif/ $vc/; mkdir -p $vc/evidence
  n=0
  while read d; do
    n=$((n+1)); [ $(( (n-1) % W )) -eq $i ] || continue
    name=$(basename $d)
    ( cd $wt && git apply /verif/$d/patch.diff ) || { echo "NOAPPLY $name" >> /root/scratch/mp_out_$i.txt; continue; }
    res=""
    for id in $(relevant /verif/$d/patch.diff); do
      out=$(GOFLAGS=-mod=mod GOPROXY=off GOSUMDB=off GOTOOLCHAIN=local /verif/bin/govc check -repo $wt -verif $vc $id 2>&1); rc=$?
      res="$res $id=$rc"
      [ $rc -ne 0 ] && echo "$out" | grep "^VIOLATION" | sed "s/^/    [$name] /" | cut -c1-330 | head -4 >> /root/scratch/mp_detail_$i.txt
    done
    ( cd $wt && git checkout -q -- . && git clean -fdq )
    if echo "$res" | grep -q "=[^0]"; then echo "ALARM   $name:$res"; else echo "quiet   $name:$res"; fi >> /root/scratch/mp_out_$i.txt
  done < /root/scratch/mp_list.txt
  git -C /repo worktree remove --force $wt >/dev/null 2>&1; rm -rf $vc
}
rm -f /root/scratch/mp_detail_*.txt
for i in $(seq 0 $((W-1))); do worker $i & done; wait
git -C /repo worktree prune
cat /root/scratch/mp_out_*.txt | sort -k2 > /root/scratch/must_pass_par.txt
cat /root/scratch/must_pass_par.txt
cat /root/scratch/mp_detail_*.txt 2>/dev/null
! grep -q "^ALARM\|^NOAPPLY" /root/scratch/must_pass_par.txt
