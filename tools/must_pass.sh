#!/bin/bash
# must-pass corpus: every behaviour-preserving change in harmless/ must leave EVERY claimed check at exit 0.
# usage: tools/must_pass.sh [name-substring]
cd /verif
bad=0
for d in harmless/*${1:-}*/; do
  echo "=== $(basename $d): $(python3 -c "import json;d=json.load(open('$d/meta.json'));print(d.get('kind'),d.get('file'))")"
  out=$(tools/try_harmless.sh $d/patch.diff); echo "$out" | cut -c1-300
  echo "$out" | grep -q "rc=[^0]" && bad=1
done
exit $bad
