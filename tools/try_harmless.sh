#!/bin/bash
# usage: tools/try_harmless.sh <patch.diff> : apply a behaviour-preserving change to /repo, run EVERY claimed check
# (6 at a time), undo it. Every check must still exit 0: an exit 1 here is a false alarm of the machinery.
set -u
P=$(readlink -f "$1")
cd /repo && { [ -z "$(git status --porcelain)" ] || { echo "/repo has uncommitted changes"; exit 2; }; } && git apply "$P" || { echo "patch does not apply"; exit 2; }
mkdir -p /root/scratch/evkeep && cp /verif/evidence/*.json /root/scratch/evkeep/
ids=$(python3 -c "import json;print(' '.join(c['property_id'] for c in json.load(open('/verif/MANIFEST.json'))['checks']))")
cd /verif
printf '%s\n' $ids | xargs -P 6 -I{} sh -c './check {} > /root/scratch/harm_{}.txt 2>&1; echo "{} rc=$?"' | sort | tr '\n' ' '
echo
grep -h "VIOLATION" /root/scratch/harm_*.txt | cut -c1-300 | head -10
cp /root/scratch/evkeep/*.json /verif/evidence/
cd /repo && git checkout -- . && git clean -fdq -- . >/dev/null; git status --short | head -3
