#!/bin/bash
# usage: mk_seed_wt.sh <name>  -> creates /tmp/wt_<name>: a detached worktree of /repo HEAD without the contract files
set -eu
p=$1
git -C /repo worktree add -q --detach /tmp/wt_$p HEAD
cd /tmp/wt_$p
git rm -q $(git ls-files | grep 'zz_contracts.*_verif.go')
git -c user.name=builder -c user.email=b@x commit -qm "scratch base (contract files removed)"
mkdir -p _mutation
python3 - "$p" <<'PY'
import json,sys
pid=sys.argv[1].split('_')[0]
for l in open('/verif/properties.jsonl'):
    d=json.loads(l)
    if d['id']==pid:
        open('_mutation/PROPERTY.json','w').write(json.dumps(d,indent=1))
PY
echo /tmp/wt_$p
