#!/bin/bash
# usage: confirm_all.sh <worktree> : confirm every _mutation/m<k> of a seeding worktree (build, existing tests, demo fails with / passes without)
WT=$1
for m in $WT/_mutation/m*/; do
  k=$(basename $m); pkg=$(python3 -c "import json;print(json.load(open('$m/meta.json'))['package'])"); run=$(python3 -c "import json;print(json.load(open('$m/meta.json')).get('run',''))")
  cp $m/patch.diff $WT/_mutation/patch.diff; cp $m/demo_test.go /tmp/zz_seed_demo_$$_test.go
  echo "== $(basename $WT) $k ($pkg) run='$run'"
  if echo "$run" | grep -q -- "-race"; then
    ( export GOFLAGS=-mod=mod GOPROXY=off GOSUMDB=off GOTOOLCHAIN=local; cd $WT; git checkout -q -- .; git apply _mutation/patch.diff; go build ./... && echo build-with-change: ok; go test -vet=off -count=1 ./$pkg/ 2>&1 | tail -1 | sed 's/^/existing-tests-with-change: /'; cp /tmp/zz_seed_demo_$$_test.go $pkg/zz_seed_demo_test.go; go test -race -vet=off -count=1 -timeout 5m -run TestSeedDemo ./$pkg/ >/tmp/cw.txt 2>&1; echo "demo-with-change rc=$?"; git checkout -q -- .; go test -race -vet=off -count=1 -timeout 5m -run TestSeedDemo ./$pkg/ >/tmp/cwo.txt 2>&1; echo "demo-without-change rc=$?"; rm -f $pkg/zz_seed_demo_test.go )
  else
    /verif/tools/confirm_seed.sh $WT $pkg /tmp/zz_seed_demo_$$_test.go TestSeedDemo 5m
  fi
  rm -f $WT/_mutation/patch.diff /tmp/zz_seed_demo_$$_test.go
done
