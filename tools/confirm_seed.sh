#!/bin/bash
# usage: confirm_seed.sh <worktree> <pkgdir> <demo_file> <run_regex> [timeout]
# confirms: builds with the change, package tests pass with the change, demo fails with / passes without the change
set -u
WT=$1; PKG=$2; DEMO=$3; RUN=$4; TO=${5:-20m}
export GOFLAGS=-mod=mod GOPROXY=off GOSUMDB=off GOTOOLCHAIN=local
cd $WT || exit 2
git checkout -q -- . ; rm -f $PKG/$(basename $DEMO)
git apply _mutation/patch.diff || { echo "APPLY FAILED"; exit 2; }
go build ./... && echo "build-with-change: ok" || echo "build-with-change: FAIL"
go test -vet=off -count=1 ./$PKG/ 2>&1 | tail -1 | sed 's/^/existing-tests-with-change: /'
cp $DEMO $PKG/
go test -vet=off -count=1 -timeout $TO -run "$RUN" ./$PKG/ > /tmp/confirm_with.txt 2>&1; echo "demo-with-change rc=$? ($(grep -c -- '--- FAIL' /tmp/confirm_with.txt) FAIL lines)"
git checkout -q -- .
go test -vet=off -count=1 -timeout $TO -run "$RUN" ./$PKG/ > /tmp/confirm_without.txt 2>&1; echo "demo-without-change rc=$? ($(grep -c -- '--- FAIL' /tmp/confirm_without.txt) FAIL lines)"
rm -f $PKG/$(basename $DEMO)
