#!/bin/bash
# run every claimed check quietly; print id, exit code, seconds, number of output lines
cd /verif
for id in $(python3 -c "import json;print(' '.join(c['property_id'] for c in json.load(open('MANIFEST.json'))['checks']))"); do
  s=$(date +%s); ./check $id > /root/scratch/runall_$id.txt 2>&1; rc=$?; e=$(date +%s)
  echo "$id rc=$rc $((e-s))s lines=$(wc -l < /root/scratch/runall_$id.txt)"
done
