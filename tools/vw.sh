#!/bin/bash
# dev helper: verify wallet functions   usage: tools/vw.sh '<funcs>' [govc args...]
P=massnet.org/mass/poc/wallet/keystore,massnet.org/mass/poc/wallet/keystore/hdkeychain,massnet.org/mass/poc/wallet/keystore/snacl,massnet.org/mass/poc/wallet/keystore/zero,massnet.org/mass/poc/wallet/db
f=$1; shift
/verif/bin/govc verify -pkgs $P -funcs "$f" -overflow=false "$@" 2>&1 | grep "FAIL\|unsupp\|^==\|not ok\|rror" | cut -c1-280
