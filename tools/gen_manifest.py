#!/usr/bin/env python3
# Regenerates MANIFEST.json from tools/claims.json (what each check claims) + properties.jsonl + git log of /repo.
import json, subprocess
props=[json.loads(l) for l in open('/verif/properties.jsonl')]
claims=json.load(open('/verif/tools/claims.json'))
hooks=[l.split()[0] for l in subprocess.run(['git','-C','/repo','log','--format=%h %s'],capture_output=True,text=True).stdout.splitlines() if l.split(' ',1)[1].startswith('verif:')]
m={"version":1,"setup_cmd":"./setup.sh",
 "hooks":{"guard":"verif","enable":"go build -tags verif (contract files zz_contracts*_verif.go are comment-only and compiled only with the tag)","baseline_off_cmd":"cd /repo && go test -vet=off -count=1 -timeout 25m ./...","source_commits":list(reversed(hooks)),"add_only":True},
 "engines":[{"name":"govc","path":"/verif/engine","serves_properties":sorted(claims["claimed"]),"kind_free_text":"contract-based deductive verifier for Go written for this task: VC generation over go/ssa (x/tools v0.29.0) with contracts as structured comments in /repo (build tag verif) and assumed contracts of dependencies in /verif/contracts/ext, discharged by z3 4.8.12 / z3 5.1.0 / cvc5 1.0.3"}],
 "checks":[],"not_applicable":[],"notes":"see DESIGN.md; known findings and fixed defects in known_findings.jsonl"}
for p in props:
    i=p['id']
    if i in claims["claimed"]:
        c=claims["claimed"][i]
        m["checks"].append({"property_id":i,"quick_cmd":f"./check {i}","thorough_cmd":f"VERIF_TIER=thorough ./check {i}","evidence_file":f"/verif/evidence/{i}.json","replay_cmd_template":"tools/replay.sh {path}","engine":"govc","level_claimed":{"category":"proof","text":c["text"],"design_ref":i},"level_note":c["note"],"technique":c.get("technique","contract-based deductive verification (VCs from go/ssa, SMT)")})
    else:
        m["not_applicable"].append({"property_id":i,"reason":claims["not_applicable"].get(i,"not yet claimed: contracts for this property are still being built (see DESIGN.md)")})
json.dump(m,open('/verif/MANIFEST.json','w'),indent=1)
print("claimed:",sorted(claims["claimed"]))
