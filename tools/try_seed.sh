#!/bin/bash
# usage: tools/try_seed.sh <patch.diff> <ID> [<ID>...]  : apply a seeded change to /repo, run the checks, undo it.
set -u
P=$1; shift
cd /repo && { [ -z "$(git status --porcelain)" ] || { echo "/repo has uncommitted changes - commit them first"; exit 2; }; } && git apply "$P" || { echo "patch does not apply"; exit 2; }
for id in "$@"; do
  # the evidence file describes the unchanged tree: keep it out of the way while the changed tree is checked
  [ -f /verif/evidence/$id.json ] && cp /verif/evidence/$id.json /root/scratch/evidence_keep_$id.json
  out=$(cd /verif && ./check $id 2>&1); rc=$?
  [ -f /root/scratch/evidence_keep_$id.json ] && mv /root/scratch/evidence_keep_$id.json /verif/evidence/$id.json
  echo "== $id exit=$rc"; echo "$out" | grep "VIOLATION\|KNOWN" | cut -c1-400 | head -8
done
cd /repo && git checkout -- . && git status --short | head -3
