#!/bin/bash
# usage: tools/replay.sh <replay.json>   - shows the recorded violation and, where the property has a replay driver,
# re-runs it against the real code of /repo's current working tree (go test -overlay; nothing is written to /repo)
set -u
cd "$(dirname "$0")/.."
f=$1
[ -f "$f" ] || { echo "no such replay file: $f"; exit 2; }
python3 - "$f" <<'PY'
import json,sys
d=json.load(open(sys.argv[1]))
for k in ("property","obligation","func","pos","status","clause","error","unsupported","bound","how"):
    if d.get(k): print("%s: %s" % (k, str(d[k])[:600]))
for k in ("replay_output","solver_output","output"):
    if d.get(k): print("--- %s ---\n%s" % (k, str(d[k])[:3000]))
PY
id=$(python3 -c "import json,sys;print(json.load(open(sys.argv[1])).get('property',''))" "$f")
drv=$(python3 -c "import json,sys;print(json.load(open('props/%s.json'%sys.argv[1])).get('replay',''))" "$id" 2>/dev/null)
if [ -n "$drv" ] && [ -f "replay/$drv.sh" ]; then
  echo "--- re-running replay/$drv.sh on the current tree ---"
  bash "replay/$drv.sh" "$f" /repo; rc=$?
  [ $rc -eq 0 ] && echo "replay: REPRODUCED on the current tree" || echo "replay: not reproduced on the current tree (exit $rc)"
fi
exit 0
