#!/bin/bash
# must-fail corpus, W workers: each worker has its own scratch worktree of /repo's HEAD and its own copy of /verif's
# inputs (so evidence/ and replays/ of /verif itself are not touched). Every seeded change must make the check of its
# property exit 1 with a VIOLATION line.   usage: tools/selftest_par.sh [W=4] [name-substring]
W=${1:-4}; sub=${2:-}
cd /verif
[ -z "$(git -C /repo status --porcelain)" ] || { echo "/repo has uncommitted changes (worktrees are made from HEAD)"; exit 2; }
ls -d seeded/*${sub}*/ | sed 's#/$##' > /root/scratch/st_list.txt
rm -f /root/scratch/st_out_*.txt
worker() {
  i=$1; wt=/tmp/wt_st_$i; vc=/root/scratch/vc_st_$i
  git -C /repo worktree remove --force $wt >/dev/null 2>&1; rm -rf $wt $vc
  git -C /repo worktree add -q --detach $wt HEAD || exit 2
  mkdir -p $vc; rsync -a --exclude .git --exclude engine --exclude seeded --exclude harmless --exclude replays --exclude evidence /verif/ $vc/; mkdir -p $vc/evidence
  n=0
  while read d; do
    n=$((n+1)); [ $(( (n-1) % W )) -eq $i ] || continue
    name=$(basename $d); id=$(python3 -c "import json;print(json.load(open('/verif/$d/meta.json'))['property'])")
    ( cd $wt && git apply /verif/$d/patch.diff ) || { echo "NOAPPLY $name" >> /root/scratch/st_out_$i.txt; continue; }
    s=$(date +%s); out=$(GOFLAGS=-mod=mod GOPROXY=off GOSUMDB=off GOTOOLCHAIN=local /verif/bin/govc check -repo $wt -verif $vc $id 2>&1); rc=$?; e=$(date +%s)
    ( cd $wt && git checkout -q -- . && git clean -fdq )
    v=$(echo "$out" | grep -c "^VIOLATION")
    if [ $rc -eq 1 ] && [ $v -gt 0 ]; then echo "caught  $name ($id, $v violation lines, $((e-s))s)"; else echo "MISSED  $name ($id rc=$rc)"; fi >> /root/scratch/st_out_$i.txt
  done < /root/scratch/st_list.txt
  git -C /repo worktree remove --force $wt >/dev/null 2>&1; rm -rf $vc
}
for i in $(seq 0 $((W-1))); do worker $i & done; wait
git -C /repo worktree prune
cat /root/scratch/st_out_*.txt | sort -k2 > /root/scratch/selftest_par.txt
echo "caught: $(grep -c '^caught' /root/scratch/selftest_par.txt) of $(wc -l < /root/scratch/st_list.txt)"
grep -v '^caught' /root/scratch/selftest_par.txt
[ "$(grep -c '^caught' /root/scratch/selftest_par.txt)" -eq "$(wc -l < /root/scratch/st_list.txt)" ]
