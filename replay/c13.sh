#!/bin/bash
# usage: c13.sh <replay.json> <repo> [known]   exit 0 iff the failure named by the obligation shows on the real code:
#   hand-off obligations (PlotWS/MineWS send under the state lock)  -> deadlock demonstration with a watchdog (capacity or skchia)
#   close obligation of StopPlot                                     -> two stop requests during one plot: 'close of closed channel'
#   lock obligations of plotterQueue                                 -> go test -race: plotter push vs. stop request's queue rebuild
# without an obligation (self-check on the unchanged tree): the two drivers of the repaired defects; they must not reproduce.
set -u
REPO=${2:-/repo}
export GOFLAGS=-mod=mod GOPROXY=off GOSUMDB=off GOTOOLCHAIN=local
D=$(mktemp -d)
trap 'rm -rf "$D"' EXIT
H=$(dirname "$0")
ob=""
[ -f "$1" ] && ob=$(python3 -c "import json,sys; d=json.load(open(sys.argv[1])); print(d.get('obligation',''))" "$1" 2>/dev/null)
[ "${3:-}" = known ] && ob="capacity.SpaceKeeper).MineWS#assert-at:send[hand-off-does-not-block-under-the-state-lock]"
run() { # pkgdir testfile mode race
  cp "$H/$2" "$D/zz_govc_replay_test.go"
  echo "{\"Replace\": {\"$REPO/$1/zz_govc_replay_test.go\": \"$D/zz_govc_replay_test.go\"}}" > "$D/ov.json"
  (cd "$REPO" && GOVC_C13_MODE=$3 go test $4 -overlay "$D/ov.json" -vet=off -count=1 -timeout 300s -run TestGovcReplayC13 ./$1/ 2>&1)
}
rc=1
deadlock() { out=$(run "$1" "$2" deadlock ""); if echo "$out" | grep -q REPRODUCED; then echo "$out" | grep REPRODUCED | sed 's/^ *//' | head -6; rc=0; else echo "$out" | grep -v "^time=\|ld:" | tail -3; fi; }
doublestop() { out=$(run poc/engine/massdb/massdb.v1 c13_massdb_replay_test.go.txt doublestop ""); if echo "$out" | grep -q "close of closed channel\|close of nil channel"; then echo "REPRODUCED: two stop requests during one plot: $(echo "$out" | grep -m1 'panic:')"; echo "$out" | grep -A6 "^goroutine .*running" | head -8; rc=0; else echo "$out" | grep -v "^time=\|ld:" | tail -2; fi; }
race() { out=$(run poc/engine/spacekeeper/capacity c13_capacity_replay_test.go.txt race -race); if echo "$out" | grep -A14 "WARNING: DATA RACE" | grep -q "plotterQueue\|prque\."; then echo "REPRODUCED: go test -race reports a data race on the plotter queue:"; echo "$out" | grep -A14 "WARNING: DATA RACE" | grep "plotterQueue\|prque\.\|Read at\|Write at\|Previous" | sed 's/^ *//' | awk '!seen[$0]++' | head -12; rc=0; else echo "$out" | grep -v "^time=\|ld:" | tail -2; fi; }
wgrace() { out=$(run poc/engine/spacekeeper/capacity c13_capacity_replay_test.go.txt wg -race); if echo "$out" | grep -A12 "WARNING: DATA RACE" | grep -B8 -A8 "runtime.race" | grep -q "OnStop\|spacePlotter"; then echo "REPRODUCED: go test -race: OnStop's WaitGroup.Wait races with the Add made inside the plotter goroutine"; echo "$out" | grep -A10 "runtime.racewrite\|runtime.raceread" | grep "capacity\." | sed 's/^ *//' | awk '!seen[$0]++' | head -6; rc=0; else echo "$out" | grep -v "^time=\|ld:" | tail -2; fi; }
listrace() { out=$(run poc/engine/spacekeeper/capacity c13_capacity_replay_test.go.txt listrace -race); if echo "$out" | grep -A30 "WARNING: DATA RACE" | grep -q "getWsByFlags\|deleteFromSlice\|disuseWorkSpace"; then echo "REPRODUCED: go test -race: the configured-space list is read without the state lock while a remove request rewrites it:"; echo "$out" | grep -A30 "WARNING: DATA RACE" | grep "capacity\.\(getWsByFlags\|deleteFromSlice\|(\*SpaceKeeper)\.\(GetProofs\|disuseWorkSpace\|RemoveWS\|.*MultiWS\)\)" | sed 's/^ *//' | awk '!seen[$0]++' | head -8; rc=0; else echo "$out" | grep -v "^time=\|ld:" | tail -2; fi; }
case "$ob" in
  *workSpaceList*|*selectWorkSpaces*) listrace;;
  *plotter-registered*|*does-not-register-itself*) wgrace;;
  *skchia*hand-off*) deadlock poc/engine.v2/spacekeeper/skchia c13_skchia_replay_test.go.txt;;
  *hand-off*) deadlock poc/engine/spacekeeper/capacity c13_capacity_replay_test.go.txt;;
  *StopPlot*) doublestop;;
  *plotterQueue*|*spacePlotter*) race;;
  "") doublestop; race; wgrace; listrace;;
  *) echo "no driver for $ob"; exit 1;;
esac
exit $rc
