#!/bin/bash
# usage: c11.sh <replay.json> <repo>   exit 0 iff a start-up / removal scenario on the real code violates C11
# (legacy-name upgrade over an existing plot; a renamed plot file whose header does not match its name is indexed)
set -u
REPO=${2:-/repo}
export GOFLAGS=-mod=mod GOPROXY=off GOSUMDB=off GOTOOLCHAIN=local
D=$(mktemp -d)
trap 'rm -rf "$D"' EXIT
cp "$(dirname "$0")/c11_replay_test.go.txt" "$D/zz_govc_replay_test.go"
cp "$(dirname "$0")/c11rn_replay_test.go.txt" "$D/zz_govc_replay2_test.go"
P=poc/engine/spacekeeper/capacity
cat > "$D/ov.json" <<JSON
{"Replace": {"$REPO/$P/zz_govc_replay_test.go": "$D/zz_govc_replay_test.go", "$REPO/$P/zz_govc_replay2_test.go": "$D/zz_govc_replay2_test.go"}}
JSON
OP=""
if [ -f "$1" ]; then
  f=$(python3 -c "import json,sys,re; d=json.load(open(sys.argv[1])); m=re.search(r'KeystoreManagerForPoC\)\.(\w+)', d.get('obligation','')+' '+d.get('func','')); print(m.group(1) if m else '')" "$1" 2>/dev/null)
  case "$f" in ChangeRemark|DeleteKeystore|NextAddresses|GenerateNewPublicKey|ChangePubPassphrase|ChangePrivPassphrase) OP=$f;; esac
fi
cd "$REPO" && out=$(go test -overlay "$D/ov.json" -vet=off -count=1 -timeout 600s -run TestGovcReplayC11 ./$P/ 2>&1)
echo "$out" | grep -v "^time=" | grep -A3 "REPRODUCED" | grep -v "^--" | head -32
echo "$out" | grep -q REPRODUCED || { echo "$out" | tail -3; exit 1; }
