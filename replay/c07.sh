#!/bin/bash
# usage: c07.sh <replay.json> <repo>   exit 0 iff table B loses a pair that sits behind the first 64 MiB of table A at bit
# length 34 (pass 2 reading pairs of 10 bytes through a 64 MiB buffer with short reads). Runs the real plotWork on sparse
# table files: about 7 minutes, 4 GiB of memory, 4 GiB of disk under $TMPDIR.
set -u
REPO=${2:-/repo}
export GOFLAGS=-mod=mod GOPROXY=off GOSUMDB=off GOTOOLCHAIN=local
ob=""
[ -f "$1" ] && ob=$(python3 -c "import json,sys; d=json.load(open(sys.argv[1])); print(d.get('obligation',''))" "$1" 2>/dev/null)
case "$ob" in
  *plotWork*ReadFull*|*plotWork#verifiable*|"") ;;
  *) echo "no driver for $ob"; exit 1;;
esac
D=$(mktemp -d)
trap 'rm -rf "$D"' EXIT
cp "$(dirname "$0")/c07_replay_test.go.txt" "$D/zz_govc_replay_test.go"
P=poc/engine/massdb/massdb.v1
echo "{\"Replace\": {\"$REPO/$P/zz_govc_replay_test.go\": \"$D/zz_govc_replay_test.go\"}}" > "$D/ov.json"
out=$(cd "$REPO" && GOVC_C07_MODE=shortread go test -overlay "$D/ov.json" -vet=off -count=1 -timeout 40m -run TestGovcReplayC07ShortRead ./$P/ 2>&1)
if echo "$out" | grep -q REPRODUCED; then echo "$out" | grep REPRODUCED | sed 's/^ *//' | cut -c1-600; exit 0; fi
echo "$out" | grep -v "^time=\|ld:" | tail -3
exit 1
