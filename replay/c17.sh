#!/bin/bash
# usage: c14.sh <replay.json> <repo>   exit 0 iff the race detector reports a data race in package fractal
set -u
REPO=${2:-/repo}
export GOFLAGS=-mod=mod GOPROXY=off GOSUMDB=off GOTOOLCHAIN=local
D=$(mktemp -d)
trap 'rm -rf "$D"' EXIT
cp "$(dirname "$0")/c17_replay_test.go.txt" "$D/zz_govc_replay_test.go"
P=fractal
cat > "$D/ov.json" <<JSON
{"Replace": {"$REPO/$P/zz_govc_replay_test.go": "$D/zz_govc_replay_test.go"}}
JSON
cd "$REPO" && out=$(go test -race -overlay "$D/ov.json" -vet=off -count=1 -timeout 300s -run TestGovcReplayC17 ./$P/ 2>&1)
if echo "$out" | grep -q "WARNING: DATA RACE"; then
  echo "REPRODUCED: go test -race reports data races in $P:"
  echo "$out" | grep -A12 "WARNING: DATA RACE" | grep "fractal\.\|Previous\|Write at\|Read at" | grep -v "^--" | sed 's/^ *//' | awk '!seen[$0]++' | head -24
  exit 0
fi
echo "$out" | tail -3
exit 1
