#!/bin/bash
# usage: c10.sh <replay.json> <repo>   exit 0 iff the violation shape was reproduced on the real code
set -u
REPO=${2:-/repo}
export GOFLAGS=-mod=mod GOPROXY=off GOSUMDB=off GOTOOLCHAIN=local
D=$(mktemp -d)
trap 'rm -rf "$D"' EXIT
cp "$(dirname "$0")/c10_replay_test.go.txt" "$D/zz_govc_replay_test.go"
P=poc/engine/massdb/massdb.v1
cat > "$D/ov.json" <<JSON
{"Replace": {"$REPO/$P/zz_govc_replay_test.go": "$D/zz_govc_replay_test.go"}}
JSON
cd "$REPO" && out=$(go test -overlay "$D/ov.json" -vet=off -count=1 -timeout 180s -run TestGovcReplayC10 ./$P/ 2>&1)
echo "$out" | grep -v "^\[" | grep -i "REPRODUCED\|terminated\|error\|FAIL" | head -5
echo "$out" | grep -q REPRODUCED
