#!/bin/bash
# Bounded stand-in (labelled bounded, never counted as proved) for the mnemonic facet of C18: the real NewMnemonic /
# EntropyFromMnemonic / MnemonicToByteArray on all single-bit, single-byte, all-zero/all-one and N pseudo-random entropies
# (N = 3000 quick, 200000 thorough) of each of the five sizes.  Nothing is written to /repo (go test -overlay).
set -u
REPO=${REPO:-/repo}
VERIF=$(cd "$(dirname "$0")/.." && pwd)
export GOFLAGS=-mod=mod GOPROXY=off GOSUMDB=off GOTOOLCHAIN=local
N=3000
[ "${VERIF_TIER:-quick}" = thorough ] && N=200000
D=$(mktemp -d)
trap 'rm -rf "$D"' EXIT
cp "$VERIF/bounded/c18_mnemonic_test.go.txt" "$D/zz_govc_bounded_test.go"
cat > "$D/ov.json" <<JSON
{"Replace": {"$REPO/poc/wallet/keystore/zz_govc_bounded_test.go": "$D/zz_govc_bounded_test.go"}}
JSON
out=$(cd "$REPO" && GOVC_C18_N=$N go test -overlay "$D/ov.json" -vet=off -v -count=1 -timeout 1500s -run TestGovcBoundedC18Mnemonic ./poc/wallet/keystore/ 2>&1)
rc=$?
echo "$out" | grep "BOUNDED-" | head -3
if [ $rc -ne 0 ]; then
  mkdir -p "$VERIF/replays/C18"
  R="$VERIF/replays/C18/bounded_mnemonic.json"
  python3 - "$R" <<PY
import json,sys
out = """$(echo "$out" | tail -15 | sed 's/\\/\\\\/g; s/"""/"/g')"""
json.dump({"property":"C18","obligation":"bounded:mnemonic-round-trip","bound":"N=$N","output":out,"how":"bash /verif/bounded/c18_mnemonic.sh"}, open(sys.argv[1],"w"), indent=1)
PY
  if echo "$out" | grep -q "BOUNDED-FAIL"; then
    echo "VIOLATION property=C18 replay=$R"
  else
    echo "VIOLATION property=C18 replay=$R no-failing-input-found"
  fi
  exit 1
fi
exit 0
