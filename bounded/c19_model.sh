#!/bin/bash
# Bounded stand-in (labelled bounded, never counted as proved) for C19: N random sequences (N = 60 quick, 3000 thorough) of
# 12 transactions x 40 operations on the real LevelDB-backed store against a reference tree of maps, adversarial names
# and keys, commit / rollback / reopen points.  Nothing is written to /repo (go test -overlay, temp dirs).
set -u
REPO=${REPO:-/repo}
VERIF=$(cd "$(dirname "$0")/.." && pwd)
export GOFLAGS=-mod=mod GOPROXY=off GOSUMDB=off GOTOOLCHAIN=local
N=60
[ "${VERIF_TIER:-quick}" = thorough ] && N=3000
D=$(mktemp -d)
trap 'rm -rf "$D"' EXIT
cp "$VERIF/bounded/c19_model_test.go.txt" "$D/zz_govc_bounded_test.go"
cat > "$D/ov.json" <<JSON
{"Replace": {"$REPO/poc/wallet/db/ldb/zz_govc_bounded_test.go": "$D/zz_govc_bounded_test.go"}}
JSON
out=$(cd "$REPO" && GOVC_C19_N=$N go test -overlay "$D/ov.json" -vet=off -v -count=1 -timeout 1500s -run TestGovcBoundedC19Model ./poc/wallet/db/ldb/ 2>&1)
rc=$?
echo "$out" | grep "BOUNDED-" | head -3
if [ $rc -ne 0 ]; then
  mkdir -p "$VERIF/replays/C19"
  R="$VERIF/replays/C19/bounded_model.json"
  python3 - "$R" <<PY
import json,sys
out = """$(echo "$out" | tail -15 | sed 's/\\/\\\\/g; s/"""/"/g')"""
json.dump({"property":"C19","obligation":"bounded:store-vs-tree-of-maps","bound":"N=$N","output":out,"how":"bash /verif/bounded/c19_model.sh"}, open(sys.argv[1],"w"), indent=1)
PY
  if echo "$out" | grep -q "BOUNDED-FAIL"; then
    echo "VIOLATION property=C19 replay=$R"
  else
    echo "VIOLATION property=C19 replay=$R no-failing-input-found"
  fi
  exit 1
fi
exit 0
