#!/bin/bash
# Bounded stand-in (labelled bounded, never counted as proved) for C20's amount facet: runs the real AmountToString /
# StringToAmount over [0, N) (N = 2*10^7 quick, 3*10^8 thorough), the top N/10 amounts up to the maximum supply, and
# +-2000 around every power of ten and every whole coin 1..9.  Nothing is written to /repo (go test -overlay).
set -u
REPO=${REPO:-/repo}
VERIF=$(cd "$(dirname "$0")/.." && pwd)
export GOFLAGS=-mod=mod GOPROXY=off GOSUMDB=off GOTOOLCHAIN=local
N=20000000
[ "${VERIF_TIER:-quick}" = thorough ] && N=300000000
D=$(mktemp -d)
trap 'rm -rf "$D"' EXIT
cp "$VERIF/bounded/c20_amounts_test.go.txt" "$D/zz_govc_bounded_test.go"
cat > "$D/ov.json" <<JSON
{"Replace": {"$REPO/api/zz_govc_bounded_test.go": "$D/zz_govc_bounded_test.go"}}
JSON
out=$(cd "$REPO" && GOVC_C20_N=$N go test -overlay "$D/ov.json" -vet=off -v -count=1 -timeout 1500s -run TestGovcBoundedC20Amounts ./api/ 2>&1)
rc=$?
echo "$out" | grep "BOUNDED-" | head -3
if [ $rc -ne 0 ]; then
  mkdir -p "$VERIF/replays/C20"
  R="$VERIF/replays/C20/bounded_amounts.json"
  python3 - "$R" <<PY
import json,sys
out = """$(echo "$out" | tail -15 | sed 's/\\/\\\\/g; s/"""/"/g')"""
json.dump({"property":"C20","obligation":"bounded:amount-round-trip","bound":"N=$N","output":out,"how":"bash /verif/bounded/c20_amounts.sh"}, open(sys.argv[1],"w"), indent=1)
PY
  if echo "$out" | grep -q "BOUNDED-FAIL"; then
    echo "VIOLATION property=C20 replay=$R"
  else
    echo "VIOLATION property=C20 replay=$R no-failing-input-found"
  fi
  exit 1
fi
exit 0
