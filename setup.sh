#!/bin/bash
# Build the verifier from files on disk only (x/tools v0.29.0 is vendored under engine/vendor).
set -e
cd "$(dirname "$0")"
export GOFLAGS=-mod=vendor GOPROXY=off GOSUMDB=off GOTOOLCHAIN=local
mkdir -p bin evidence replays
(cd engine && go build -o ../bin/govc .)
# warm the build cache for the packages under contract so the first check does not pay for compiling dependencies
(cd /repo && GOFLAGS=-mod=mod go build -tags verif ./... >/dev/null 2>&1 || true)
echo "setup ok"
