; lemma c19_keys (C19): the key encoding of the wallet's bucket store is prefix-free across buckets.
; Names never contain the separator (isValidBucketName / subBucket / CreateTopLevelBucket postconditions), an entry of
; the bucket with path P is stored under P ++ "_" ++ key and scans use the prefix P ++ "_" (innerKey / Clear /
; deleteBucket / GetByPrefix contracts), bucket records live under "b" ++ "_" ++ P.
; Step: if a_x is a prefix of b_y and neither a nor b contains the separator, then a = b and x is a prefix of y.
; Applied component by component (first component = decimal depth, then one name per level; the induction over the
; depth is a paper argument, DESIGN.md C19) two different paths of well-formed buckets never share a scan prefix; with
; a = "b" and b a decimal numeral it separates bucket records from entries.
(set-option :strings-exp true)
(set-logic ALL)
(declare-const a String) (declare-const b String) (declare-const x String) (declare-const y String)
(declare-const d String) (declare-const k String) (declare-const k2 String)
(assert (not (str.contains a "_"))) (assert (not (str.contains b "_")))
; d is a non-empty decimal numeral
(assert (and (> (str.len d) 0) (str.is_digit (str.at d 0)) (not (str.contains d "_"))))
(assert (not (and
  ; step
  (=> (str.prefixof (str.++ a "_" x) (str.++ b "_" y)) (and (= a b) (str.prefixof x y)))
  ; equal keys: injective per component
  (=> (= (str.++ a "_" x) (str.++ b "_" y)) (and (= a b) (= x y)))
  ; last level: scan prefix a_ of one bucket matches an entry b_k of another only if a = b
  (=> (str.prefixof (str.++ a "_") (str.++ b "_" k)) (= a b))
  ; bucket records ("b_...") and entries (numeral first) never meet, in either direction
  (not (str.prefixof (str.++ "b" "_" x) (str.++ d "_" y)))
  (not (str.prefixof (str.++ d "_" x) (str.++ "b" "_" y)))
)))
(check-sat)
