; lemma idxA_bijective (C07 item 2): the record index used by HashMapA.Get/Set and by prePlotWork,
; idxA(y) = 2y for y < half, 2*(V-1-y)+1 otherwise, is injective on [0,V) and maps into [0,V), V = 2^bl, 24<=bl<=40.
(set-logic ALL)
(declare-const bl Int)(declare-const V Int)(declare-const H Int)
(assert (and (<= 24 bl) (<= bl 40)))
(assert (and (=> (= bl 24) (and (= V 16777216) (= H 8388608))) (=> (= bl 25) (and (= V 33554432) (= H 16777216))) (=> (= bl 26) (and (= V 67108864) (= H 33554432))) (=> (= bl 27) (and (= V 134217728) (= H 67108864))) (=> (= bl 28) (and (= V 268435456) (= H 134217728))) (=> (= bl 29) (and (= V 536870912) (= H 268435456))) (=> (= bl 30) (and (= V 1073741824) (= H 536870912))) (=> (= bl 31) (and (= V 2147483648) (= H 1073741824))) (=> (= bl 32) (and (= V 4294967296) (= H 2147483648))) (=> (= bl 33) (and (= V 8589934592) (= H 4294967296))) (=> (= bl 34) (and (= V 17179869184) (= H 8589934592))) (=> (= bl 35) (and (= V 34359738368) (= H 17179869184))) (=> (= bl 36) (and (= V 68719476736) (= H 34359738368))) (=> (= bl 37) (and (= V 137438953472) (= H 68719476736))) (=> (= bl 38) (and (= V 274877906944) (= H 137438953472))) (=> (= bl 39) (and (= V 549755813888) (= H 274877906944))) (=> (= bl 40) (and (= V 1099511627776) (= H 549755813888)))))
(define-fun idxA ((y Int)) Int (ite (< y H) (* 2 y) (+ (* 2 (- (- V 1) y)) 1)))
(declare-const y1 Int)(declare-const y2 Int)
(assert (and (<= 0 y1) (< y1 V) (<= 0 y2) (< y2 V)))
(assert (not (and (<= 0 (idxA y1)) (< (idxA y1) V) (=> (= (idxA y1) (idxA y2)) (= y1 y2)))))
(check-sat)
