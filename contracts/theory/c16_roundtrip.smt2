; lemma c16_roundtrip: with the inverse axioms of contracts/ext/codecs.spec, the field-wise decoder specs applied to the
; field-wise encoder specs (contracts `enc` / `dec` in fractal/protocol/zz_contracts_verif.go) give back every field,
; and the decoder's totality precondition holds on every encoder output. One instance per codec shape in use.
(set-logic ALL)
(declare-fun hexS (Int) Int) (declare-fun unhexS (Int) Int) (declare-fun isHexS (Int) Bool)
(declare-sort U 0) (declare-fun uuidS (U) Int) (declare-fun uuidP (Int) U) (declare-fun isUUIDS (Int) Bool)
(declare-fun hashS ((Array Int Int)) Int) (declare-fun hashP (Int) (Array Int Int)) (declare-fun isHashS (Int) Bool)
(declare-fun bval ((Array Int Int) Int Int) Int)
(declare-fun bigBytes (Int) Int) (declare-fun bigOfBytes (Int) Int)
(declare-fun g1Bytes (Int) Int) (declare-fun g1OfBytes (Int) Int) (declare-fun isG1Bytes (Int) Bool)
(declare-fun g2Bytes (Int) Int) (declare-fun g2OfBytes (Int) Int) (declare-fun isG2Bytes (Int) Bool)
(assert (forall ((v Int)) (and (= (unhexS (hexS v)) v) (isHexS (hexS v)))))
(assert (forall ((u U)) (and (= (uuidP (uuidS u)) u) (isUUIDS (uuidS u)))))
(assert (forall ((h (Array Int Int))) (and (= (hashP (hashS h)) h) (isHashS (hashS h)))))
(assert (forall ((h (Array Int Int))) (= (hashS h) (hexS (bval h 0 32)))))
(assert (forall ((v Int)) (=> (>= v 0) (= (bigOfBytes (bigBytes v)) v))))
(assert (forall ((v Int)) (and (= (g1OfBytes (g1Bytes v)) v) (isG1Bytes (g1Bytes v)))))
(assert (forall ((v Int)) (and (= (g2OfBytes (g2Bytes v)) v) (isG2Bytes (g2Bytes v)))))
(declare-const u U) (declare-const h (Array Int Int)) (declare-const t Int) (declare-const g Int) (declare-const s2 Int) (declare-const q Int)
(assert (>= t 0))
(assert (not (and
  ; uuid fields (TaskID)
  (isUUIDS (uuidS u)) (= (uuidP (uuidS u)) u)
  ; hash fields written with Hash.String (Challenge) and with hex(h[:]) (PlotID, Hash, Proof.Challenge), read with DecodeStringToHash
  (isHashS (hashS h)) (= (hashP (hashS h)) h)
  (isHashS (hexS (bval h 0 32))) (= (hashP (hexS (bval h 0 32))) h)
  ; big integer (ParentTarget, non-negative)
  (isHexS (hexS (bigBytes t))) (= (bigOfBytes (unhexS (hexS (bigBytes t)))) t)
  ; group elements
  (isHexS (hexS (g1Bytes g))) (isG1Bytes (unhexS (hexS (g1Bytes g)))) (= (g1OfBytes (unhexS (hexS (g1Bytes g)))) g)
  (isHexS (hexS (g2Bytes s2))) (isG2Bytes (unhexS (hexS (g2Bytes s2)))) (= (g2OfBytes (unhexS (hexS (g2Bytes s2)))) s2)
  ; raw byte strings (Quality, Proof)
  (isHexS (hexS q)) (= (unhexS (hexS q)) q))))
(check-sat)
