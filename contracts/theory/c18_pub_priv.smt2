; lemma c18_pub_priv (C18): with the postconditions of Child / Neuter / pubKeyBytes (hdkeychain contracts) and the two
; curve axioms below (point(.) is a group homomorphism from (Z_n,+) to the curve; parse inverts the compressed
; encoding), deriving a normal child from the public parent gives the public half of deriving it from the private parent,
; with the same chain code.  dataN(p, i) abstracts "33 bytes p followed by ser32(i)" (call-site assertions
; normal-data-is-the-compressed-public-key and data-is-37-bytes-ending-in-ser32-index pin every byte of that buffer).
(set-logic ALL)
(declare-fun hmacL (Int Int) Int) (declare-fun hmacR (Int Int) Int) (declare-fun bigOfBytes (Int) Int)
(declare-fun pointX (Int) Int) (declare-fun pointY (Int) Int)
(declare-fun addX (Int Int Int Int) Int) (declare-fun addY (Int Int Int Int) Int)
(declare-fun serP (Int Int) Int) (declare-fun parseX (Int) Int) (declare-fun parseY (Int) Int)
(declare-fun dataN (Int Int) Int)
(define-fun N () Int 115792089237316195423570985008687907852837564279074904382605163141518161494337)
; trusted curve facts
(assert (forall ((a Int) (b Int)) (and (= (pointX (mod (+ a b) N)) (addX (pointX a) (pointY a) (pointX b) (pointY b)))
                                        (= (pointY (mod (+ a b) N)) (addY (pointX a) (pointY a) (pointX b) (pointY b))))))
(assert (forall ((x Int) (y Int)) (and (= (parseX (serP x y)) x) (= (parseY (serP x y)) y))))
(declare-const kv Int) (declare-const c Int) (declare-const i Int)
; private parent (kv, c): pubKeyBytes = serP(point(kv))                          [pubKeyBytes: private-key-gives-its-point]
(define-fun P () Int (serP (pointX kv) (pointY kv)))
(define-fun D () Int (dataN P i))
(define-fun IL () Int (bigOfBytes (hmacL c D)))
; private child: value (IL + kv) mod n, chain code hmacR(c, D)                  [Child: private-child-is-IL-plus-parent-mod-n, chain-code-is-IR]
(define-fun ckv () Int (mod (+ IL kv) N))
; its public half                                                             [Neuter: public-half]
(define-fun pubOfPrivChild () Int (serP (pointX ckv) (pointY ckv)))
; public parent = Neuter(private parent): key bytes P, same chain code; its normal child i hashes dataN(P, i) = D
(define-fun pubChild () Int (serP (addX (pointX IL) (pointY IL) (parseX P) (parseY P)) (addY (pointX IL) (pointY IL) (parseX P) (parseY P))))
(assert (not (= pubOfPrivChild pubChild)))
(check-sat)
